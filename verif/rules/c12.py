"""C12 - generated Fortran never leaks, double-frees or uses freed user-type
storage."""

from __future__ import annotations

import ast
import re

from ..engine.cfg import CFG, own_fragments, walk_fragment
from ..engine.match import dotted, norm, func_body_stmts, string_value, string_prefix
from ..engine.srcmodel import AnalysisError

EXPLANATION = (
    "Must-pass-through and emit-order analysis of the release / allocation "
    "discipline in dagrt/codegen/fortran.py and codegen/analysis.py. "
    "Decides: all early exits (FailStep, SwitchPhase, end of phase) jump to "
    "the one exit label that lower_function emits, and after that label "
    "every entry of the phase's symbol table is released, unfiltered (the "
    "emitted deinit routine is a no-op on an unassociated pointer and "
    "nullifies after release); a move performs release-old, pointer "
    "association, count association, increment, in this order; every path "
    "to an in-place write of a user-type value passes the allocation check "
    "first (or is the move path), and the allocation check for each "
    "user-type assignee precedes the emission of a call; the emitted "
    "alloc-check and deinit routines have the copy-on-write structure; "
    "every user-type local and state component is nullified at entry / "
    "initialize; shutdown releases every global entry before the leak "
    "report; the last-use table considers every statement kind and every "
    "read or written variable; release at last use is suppressed inside "
    "loops (nesting depth maintained in pairs by emit_for_begin/end) and "
    "for persistent variables; type-visitor member loops skip a member with "
    "continue, never leave the loop. Does not decide: absence of leaks in a "
    "given emitted program over a given run history.")

ASSUMPTIONS = [
    "release emitted at a statement position can be skipped by an early exit, release after the exit label cannot",
    "deinit on an unassociated pointer is a no-op (checked structurally as C12.deinit)",
]

GEN = "dagrt.codegen.fortran.CodeGenerator"


def _emit_strings(f, attr="emit"):
    """String prefixes of self.emit*(...) calls in source order."""
    out = []
    for x in ast.walk(f.node):
        if isinstance(x, ast.Call) and (dotted(x.func) or "").startswith("self.emit") and x.args:
            s = string_prefix(x.args[0])
            if s is not None:
                out.append((x.lineno, x.col_offset, s, x))
    return sorted(out, key=lambda t: (t[0], t[1]))


def _check_main(run, P):
    run.rule("C12.exit", "early exits jump to the exit label; after it every entry of "
             "the symbol table is released, unfiltered", minimum=5)
    run.rule("C12.move", "move: release old value, associate pointer, associate "
             "count, increment - each unconditionally", minimum=2)
    run.rule("C12.alloc", "allocation check before every in-place write of a "
             "user-type value and before a call that assigns one", minimum=2)
    run.rule("C12.deinit", "emitted alloc-check / deinit routines have the "
             "copy-on-write structure", minimum=2)
    run.rule("C12.init", "every symbol-table entry is nullified at function entry and "
             "in initialize", minimum=2)
    run.rule("C12.shutdown", "shutdown releases every global entry; no generated test "
             "combines associated() with a look through the pointer", minimum=3)
    run.rule("C12.lastuse", "last-use table covers every statement and variable; "
             "release at last use is suppressed inside loops and for persistent "
             "variables", minimum=5)
    run.rule("C12.visitors", "type-visitor member loops never leave the loop early; every "
             "visit_* method has a name the dispatcher forms", minimum=17)
    run.rule("C12.fresh", "inside a loop of the Fortran generator no value is used "
             "that is only ever computed inside a different loop (a stale left-over "
             "of the last iteration of that loop)", minimum=15)
    run.rule("C12.allocatable", "is_allocatable: leaves answer by their own kind, "
             "aggregates ask every component recursively", minimum=4)
    run.rule("C12.emitters", "the type traversals that emit allocation, release and "
             "initialisation code reach every component, allocate outside-in, release "
             "inside-out and nullify after release", minimum=12)
    run.do(_emitters, run, P)
    run.do(_release_sites, run, P)
    run.do(_fresh, run, P)
    run.do(_allocatable, run, P)
    run.do(_exit, run, P)
    run.do(_move, run, P)
    from . import c07 as _c07
    run.do(_c07.selfdep_total, run, P, "C12.move")
    run.do(_alloc, run, P)
    run.do(_routines, run, P)
    run.do(_init_shutdown, run, P)
    run.do(_lastuse, run, P)
    run.do(_last_use_not_persistent, run, P)
    run.do(_visitors, run, P)


def exit_label(P):
    f = P.func(f"{GEN}.lower_function")
    for ln, col, s, x in _emit_strings(f):
        m = re.match(r"^(\d+) continue", s)
        if m:
            return m.group(1), x, f
    raise AnalysisError("lower_function: exit label emission not found")


def _exit(run, P):
    label, lab_node, f = exit_label(P)
    # jump sites
    for name in ("emit_return", "emit_inst_FailStep", "emit_inst_SwitchPhase"):
        m = P.func(f"{GEN}.{name}")
        strs = _emit_strings(m)
        last = strs[-1][2] if strs else None
        ok = last == f"goto {label}"
        leaves = [s for _, _, s, _ in strs if re.match(r"^(return|stop)\b", s.strip())]
        run.ob("C12.exit", m, strs[-1][3] if strs else m.node, ok and not leaves,
               construct=f"{name}: last emission {last!r} (exit label {label})",
               why="an exit that does not go through the exit label skips the release "
                   "code after it: every user-type temporary live at that point leaks")
    # no statement printer leaves the phase subroutine by itself
    G_ = P.cls(GEN)
    n_pr = 0
    for name, m in sorted(G_.methods.items()):
        if not (name.startswith("emit_inst_") or name in ("emit_return",)):
            continue
        n_pr += 1
        rets = [(s, x) for _, _, s, x in _emit_strings(m) if re.match(r"^return\b", s.strip())]
        run.ob("C12.exit", m, rets[0][1] if rets else m.node, not rets,
               construct=f"{name}: emits no 'return'",
               why="a phase subroutine is left through the exit label, after which the "
                   "temporaries are released; a 'return' in the middle skips that (a 'stop' "
                   "ends the program and is no leak)")
    if n_pr < 6:
        raise AnalysisError("Fortran generator: statement printers not found")
    # after the label: unfiltered release loop
    g = CFG(f.node)
    lab_cfg = None
    for n in g.nodes:
        if n.kind == "stmt" and any(x is lab_node for x in walk_fragment(n.ast)):
            lab_cfg = n
    loops = [n for n in ast.walk(f.node) if isinstance(n, ast.For)
             and any(isinstance(x, ast.Call) and dotted(x.func) == "self.emit_variable_deinit"
                     for x in ast.walk(n))]
    ok = False
    site = f.node
    if loops and lab_cfg is not None:
        lp = loops[0]
        site = lp
        ln = g.node_of(lp)
        after = not g.always_preceded([ln], [lab_cfg])
        from .util import find, first, has
        tb = first("V_t = self.sym_kind_table.per_phase_table.get(self.current_function, ANY)", f.node)
        tbl_ok = tb[0] is not None
        it_ok = tbl_ok and norm(lp.iter) == f"sorted({tb[1]['V_t']}.items())"
        from .util import core
        cb = core(lp.body, lambda s_: "self.emit_variable_deinit" in ast.unparse(s_))
        body_ok = len(cb) == 1 and isinstance(cb[0], ast.Expr) \
            and isinstance(cb[0].value, ast.Call) \
            and dotted(cb[0].value.func) == "self.emit_variable_deinit" \
            and isinstance(lp.target, ast.Tuple) \
            and [dotted(a_) for a_ in cb[0].value.args] == [dotted(t_) for t_ in lp.target.elts]
        ok = after and it_ok and body_ok and tbl_ok
        if after and it_ok and tbl_ok and not body_ok and len(cb) == 1 and isinstance(cb[0], ast.If):
            # a filtered release loop.  What may be skipped is what the body of the phase has
            # certainly released already; a filter that goes by a record the release helper
            # itself keeps (written where it emits the release) may be right - whether it is,
            # is not read.  A filter computed from anything else is not what was released.
            rel = P.func(f"{GEN}.emit_deinit_for_last_usage_of_vars")
            kept = {t_.value.attr for s_ in ast.walk(rel.node) if isinstance(s_, ast.Assign)
                    for t_ in s_.targets if isinstance(t_, ast.Subscript)
                    and isinstance(t_.value, ast.Attribute) and dotted(t_.value.value) == "self"} \
                if rel is not None else set()
            if rel is not None:
                kept |= {c_.func.value.attr for c_ in ast.walk(rel.node) if isinstance(c_, ast.Call)
                         and isinstance(c_.func, ast.Attribute) and c_.func.attr in ("add", "append")
                         and isinstance(c_.func.value, ast.Attribute) and dotted(c_.func.value.value) == "self"}
            names = {x.id for x in ast.walk(cb[0].test) if isinstance(x, ast.Name)}
            srcs = {y.attr for y in ast.walk(cb[0].test) if isinstance(y, ast.Attribute)
                    and dotted(y.value) == "self"}
            for _ in range(4):
                for s_ in ast.walk(f.node):
                    if isinstance(s_, (ast.Assign, ast.AugAssign)) and any(
                            isinstance(t_, ast.Name) and t_.id in names
                            for t_ in (s_.targets if isinstance(s_, ast.Assign) else [s_.target])):
                        for y in ast.walk(s_.value):
                            if isinstance(y, ast.Name):
                                names.add(y.id)
                            if isinstance(y, ast.Attribute) and dotted(y.value) == "self":
                                srcs.add(y.attr)
            if kept and srcs & kept:
                # a release in the body can be jumped over (FailStep / SwitchPhase go to the exit
                # label): "released already" has to know about the jumps - where names enter the
                # record, or where the filter is worked out
                from .util import path_conditions
                jump_flags = None
                for jn in ("emit_inst_FailStep", "emit_inst_SwitchPhase"):
                    jm = P.func(f"{GEN}.{jn}")
                    fl = {t_.attr for a_ in ast.walk(jm.node) if isinstance(a_, ast.Assign)
                          for t_ in a_.targets if isinstance(t_, ast.Attribute) and dotted(t_.value) == "self"}
                    jump_flags = fl if jump_flags is None else jump_flags & fl
                entries = [st_ for st_ in ast.walk(rel.node) if isinstance(st_, (ast.Expr, ast.Assign))
                           and any(isinstance(y, ast.Attribute) and y.attr in (srcs & kept)
                                   and dotted(y.value) == "self" for y in ast.walk(st_))
                           and not isinstance(st_, ast.If)]
                aware_entry = bool(entries) and all(any(f"self.{fl_}" in t for t, _ in path_conditions(rel.node, st_)
                                                        for fl_ in jump_flags) for st_ in entries)
                defs_ = [s_ for s_ in ast.walk(f.node) if isinstance(s_, (ast.Assign, ast.AugAssign, ast.For))]
                text_ = " ".join(ast.unparse(s_) for s_ in defs_ if any(
                    isinstance(y, ast.Name) and y.id in names for y in ast.walk(s_)))
                aware_filter = "FailStep" in text_ and "SwitchPhase" in text_
                if not (aware_entry or aware_filter):
                    run.ob("C12.exit", rel, entries[0] if entries else rel.node, False,
                           construct=f"'released in the body' ({sorted(srcs & kept)}) takes the early exits into "
                                     f"account (a flag both FailStep and SwitchPhase printers set, or a walk "
                                     f"that stops at them)",
                           why="a FailStep or SwitchPhase further up jumps to the exit label and over "
                               "the release: skipped there as 'released already', the variable leaks")
                    return
                raise AnalysisError(f"lower_function: the release loop after the exit label is filtered by "
                                    f"a record of the release helper ({sorted(srcs & kept)}); not decided")
    run.ob("C12.exit", f, site, ok,
           construct="after the exit label: for every (identifier, kind) of the phase's "
                     "symbol table: emit_variable_deinit, no filter",
           why="a release that is filtered (e.g. only never-used variables) leaves the "
               "temporaries live at an early exit allocated")
    # lower_ast happens before the label
    la = [n for n in g.nodes if n.kind == "stmt" and any(
        isinstance(x, ast.Call) and dotted(x.func) == "self.lower_ast" for x in walk_fragment(n.ast))]
    ok = bool(la) and lab_cfg is not None and not g.always_preceded([lab_cfg], la)
    run.ob("C12.exit", f, lab_node, ok,
           construct="the phase body is lowered before the exit label is emitted",
           why="label position")


def _move(run, P):
    f = P.func(f"{GEN}.emit_user_type_move")
    opts = {a_.arg for a_, d_ in zip(reversed(f.node.args.args), reversed(f.node.args.defaults))}
    gated = [t for t in ast.walk(f.node) if isinstance(t, ast.If)
             and any(isinstance(x, ast.Name) and x.id in opts for x in ast.walk(t.test))]
    if gated:
        # the move has an option that changes what it emits (taking over the reference of a
        # source that dies, say): the sequence below is the plain move's
        raise AnalysisError(f"emit_user_type_move emits differently under its option(s) "
                            f"{sorted(opts)}; not decided")
    events = []
    for x in sorted((n for n in ast.walk(f.node) if isinstance(n, ast.Call)),
                    key=lambda n: (n.lineno, n.col_offset)):
        d = dotted(x.func) or ""
        if d == "self.emit_variable_deinit":
            events.append("deinit:" + norm(x.args[0]))
        elif d.startswith("self.emit") and x.args:
            a = x.args[0]
            tmpl = None
            if isinstance(a, ast.Call) and isinstance(a.func, ast.Attribute) and a.func.attr == "format":
                tmpl = string_value(a.func.value)
                kws = {k.arg: norm(k.value) for k in a.keywords}
                events.append((tmpl, kws))
    sym, fname, src = f.arg(0), f.arg(1), f.arg(3)
    ok = len(events) >= 4 and events[0] == "deinit:" + sym
    if ok:
        e1, e2, e3 = events[1], events[2], events[3]
        ok = isinstance(e1, tuple) and e1[0] == "{name} => {expr}" \
            and e1[1].get("name") == fname \
            and f"{src}.name" in e1[1].get("expr", "") \
            and isinstance(e2, tuple) and e2[0] == "{tgt_refcnt} => {refcnt}" \
            and f"name_refcount({sym})" in e2[1].get("tgt_refcnt", "") \
            and f"name_refcount({src}.name)" in e2[1].get("refcnt", "") \
            and isinstance(e3, tuple) and e3[0] == "{tgt_refcnt} = {tgt_refcnt} + 1" \
            and f"name_refcount({sym})" in e3[1].get("tgt_refcnt", "")
    events = [e.replace(":" + sym, ":<assignee>") if isinstance(e, str) else e for e in events]
    # every emission happens on every path (no operand-dependent skip)
    g = CFG(f.node)
    emit_nodes = [n for n in g.nodes if n.kind == "stmt" and n.ast is not None and any(
        isinstance(x, ast.Call) and (dotted(x.func) or "").startswith("self.emit")
        for x in walk_fragment(n.ast))]
    uncond = all(g.exit not in g.reachable([g.entry], avoid=[n], follow_exc=False,
                                            include_start=True) for n in emit_nodes)
    if emit_nodes and not uncond:
        from .util import path_conditions as _pc
        from .c09 import _stmt_of as _so
        helper_gated = [n for n in emit_nodes if any(
            re.search(r"\bself\.\w+\(", t_) for t_, _v in _pc(f.node, n.ast))]
        if helper_gated:
            # an emission left out when a predicate of the generator says it is not needed
            # (the assignee is known to hold nothing yet, say): what the predicate knows is
            # not decided here
            raise AnalysisError("emit_user_type_move leaves an emission out under a predicate "
                                "of the generator; not decided")
    run.ob("C12.move", f, f.node, bool(emit_nodes) and uncond,
           construct=f"emit_user_type_move: each of its {len(emit_nodes)} emissions is made on "
                     f"every path",
           why="a release that is only emitted for persistent assignees leaks the old "
               "value of a temporary that is the target of a second move in the same "
               "phase call (a copy-in placed inside a loop body, say)")
    run.ob("C12.move", f, f.node, ok,
           construct=f"event order: {[e if isinstance(e, str) else e[0] for e in events]}",
           why="incrementing before the counts are aliased, or aliasing before the old "
               "value is released, leaks the old block or frees the shared one")


def _alloc(run, P):
    f = P.func(f"{GEN}.emit_assign_expr")
    g = CFG(f.node)

    def calls(name):
        return [n for n in g.nodes if n.kind == "stmt" and any(
            isinstance(x, ast.Call) and dotted(x.func) == name for x in walk_fragment(n.ast))]

    inner = calls("self.emit_assign_expr_inner")
    chk = calls("self.emit_allocation_check")
    move = calls("self.emit_user_type_move")
    # the first inner call is under `if not isinstance(sym_kind, UserType)`
    non_user = []
    for n in inner:
        par = None
        for t in ast.walk(f.node):
            if isinstance(t, ast.If) and any(x is n.ast for b in t.body for x in ast.walk(b)):
                par = t
        if par is not None and isinstance(par.test, ast.UnaryOp) \
                and isinstance(par.test.op, ast.Not) and isinstance(par.test.operand, ast.Call) \
                and dotted(par.test.operand.func) == "isinstance" \
                and norm(par.test.operand.args[1]) == "UserType":
            non_user.append(n)
    user_inner = [n for n in inner if n not in non_user]
    bad = g.always_preceded(user_inner, chk)
    ok = bool(user_inner) and bool(chk) and not bad and bool(move)
    run.ob("C12.alloc", f, user_inner[0].ast if user_inner else f.node, ok,
           construct="emit_allocation_check(...) dominates the in-place write of a "
                     "user-type value (the other path is the move)",
           why="writing through an unassociated or shared pointer corrupts or "
               "crashes; the check allocates / un-shares first")
    f2 = P.func(f"{GEN}.emit_inst_AssignFunctionCall")
    g2 = CFG(f2.node)
    chk2 = [n for n in g2.nodes if any(
        isinstance(x, ast.Call) and dotted(x.func) == "self.emit_allocation_check"
        for fr in own_fragments(n) for x in walk_fragment(fr))]
    call_emit = [n for n in g2.nodes if n.kind == "stmt" and any(
        isinstance(x, ast.Constant) and isinstance(x.value, str) and x.value.startswith("call {")
        for x in walk_fragment(n.ast))]
    loop_ok = False
    for n in ast.walk(f2.node):
        if isinstance(n, ast.For) and dotted(n.iter) == f"{f2.arg(0)}.assignees" and any(
                isinstance(x, ast.Call) and dotted(x.func) == "self.emit_allocation_check"
                for x in ast.walk(n)):
            ln = g2.node_of(n)
            loop_ok = bool(call_emit) and not g2.always_preceded(call_emit, [ln])
    run.ob("C12.alloc", f2, chk2[0].ast if chk2 else f2.node, loop_ok,
           construct="allocation check for every user-type assignee precedes the emitted call",
           why="the callee writes into the assignee's storage")


def _events(stmts):
    """Emission events of a statement list in source order (names of locals
    do not matter): if:<condition text>, else, alloc, dealloc, nullify,
    alloc_refcount, emit:<text>."""
    ev = []

    def cond_text(e):
        if isinstance(e, ast.BinOp) and isinstance(e.op, ast.Mod):
            return string_value(e.left) or "?"
        return string_value(e) or "?"

    def visit(n):
        if isinstance(n, ast.With):
            for it in n.items:
                c = it.context_expr
                if isinstance(c, ast.Call) and dotted(c.func) == "FortranIfEmitter" and len(c.args) >= 2:
                    ev.append("if:" + cond_text(c.args[1]))
            for b_ in n.body:
                visit(b_)
            ev.append("endif")
            return
        if isinstance(n, ast.Expr) and isinstance(n.value, ast.Call):
            c = n.value
            d = dotted(c.func) or ""
            if d.endswith(".emit_else"):
                ev.append("else")
            elif d == "self.emit_allocate_refcount":
                ev.append("alloc_refcount")
            elif d in ("self.emit_traceable", "self.emit") and c.args:
                t = string_value(c.args[0])
                if t:
                    ev.append("emit:" + t)
            elif isinstance(c.func, ast.Call):
                inner = dotted(c.func.func) or ""
                if inner == "AllocationEmitter":
                    ev.append("alloc")
                elif inner == "DeallocationEmitter":
                    ev.append("dealloc")
                elif inner == "InitializationEmitter":
                    ev.append("nullify")
            return
        for fld in ("body", "orelse"):
            for c in getattr(n, fld, []) or []:
                if isinstance(c, ast.stmt):
                    visit(c)

    for s_ in stmts:
        visit(s_)
    return ev


def _routines(run, P):
    f = P.func(f"{GEN}.begin_emit")
    loops = [n for n in ast.walk(f.node) if isinstance(n, ast.For)
             and "sorted(" in ast.unparse(n.iter)]
    alloc_loop = deinit_loop = None
    for lp in loops:
        src = ast.unparse(lp)
        if "self.get_alloc_check_name(" in src:
            alloc_loop = lp
        if "self.get_var_deinit_name(" in src:
            deinit_loop = lp
    if alloc_loop is None or deinit_loop is None:
        raise AnalysisError("begin_emit: memory management routines not found")
    ev = [e for e in _events(alloc_loop.body) if e]
    want = ["if:.not.associated(%s)", "alloc", "alloc_refcount", "else",
            "if:refcount.ne.1", "emit:refcount = refcount - 1", "alloc", "alloc_refcount",
            "endif", "endif"]
    got = [e for e in ev if not (e.startswith("emit:") and e == "emit:")]
    run.ob("C12.deinit", f, alloc_loop, got == want,
           construct=f"alloc check events: {got}",
           why="copy-on-write: writing into storage that is still referenced elsewhere "
               "changes the other variable; not decrementing leaks the shared block")
    ev = [e for e in _events(deinit_loop.body) if e]
    want = ["if:associated(%s)", "if:refcount.eq.1", "dealloc", "emit:deallocate(refcount)",
            "else", "nullify", "emit:refcount = refcount - 1", "endif", "endif"]
    run.ob("C12.deinit", f, deinit_loop, ev == want,
           construct=f"deinit events: {ev}",
           why="releasing a block twice, releasing an unassociated pointer, or not "
               "nullifying after release (the exit epilogue releases again)")
    de = P.func("dagrt.codegen.fortran.DeallocationEmitter.visit_PointerType")
    texts = []
    for x in sorted((n for n in ast.walk(de.node) if isinstance(n, ast.Call)
                     and (dotted(n.func) or "").endswith("emit_traceable") and n.args),
                    key=lambda n: (n.lineno, n.col_offset)):
        t = string_prefix(x.args[0]) or ""
        texts.append(t.split("(")[0])
    ok = texts == ["deallocate", "nullify"]
    run.ob("C12.deinit", de, de.node, ok,
           construct=f"DeallocationEmitter emits {texts}",
           why="a dangling pointer would look associated to the next deinit")


def _init_shutdown(run, P):
    f = P.func(f"{GEN}.emit_def_begin")
    loops = [n for n in ast.walk(f.node) if isinstance(n, ast.For) and any(
        isinstance(x, ast.Call) and dotted(x.func) == "self.emit_variable_init"
        for x in ast.walk(n))]
    from .util import find, first, has
    ok = False
    if loops:
        lp = loops[0]
        tb = first("V_t = self.sym_kind_table.per_phase_table.get(phase_id, ANY)", f.node)
        from .util import core
        ok = tb[0] is not None and f"sorted({tb[1]['V_t']}.items())" == norm(lp.iter) \
            and len(core(lp.body, lambda s_: "self.emit_variable_init" in ast.unparse(s_))) == 1
    run.ob("C12.init", f, loops[0] if loops else f.node, ok,
           construct="function entry: emit_variable_init for every symbol-table entry, no filter",
           why="a user-type local that is not nullified looks associated to the "
               "first allocation check / deinit")
    fi = P.func(f"{GEN}.emit_initialize")
    loops = [n for n in ast.walk(fi.node) if isinstance(n, ast.For) and any(
        isinstance(x, ast.Call) and dotted(x.func) == "self.emit_variable_init"
        for x in ast.walk(n))]
    from .util import core
    def every_iteration(lp_):
        """the init call is a statement of the loop body itself and nothing before it can
        skip to the next entry"""
        for i_, st_ in enumerate(lp_.body):
            if isinstance(st_, ast.Expr) and isinstance(st_.value, ast.Call) \
                    and dotted(st_.value.func) == "self.emit_variable_init":
                return not any(isinstance(y, (ast.Continue, ast.Break, ast.Return))
                               for b_ in lp_.body[:i_] for y in ast.walk(b_))
        return False
    ok = bool(loops) and "sorted(self.sym_kind_table.global_table.items())" == norm(loops[0].iter) \
        and (len(core(loops[0].body, lambda s_: "self.emit_variable_init" in ast.unparse(s_))) == 1
             or every_iteration(loops[0]))
    run.ob("C12.init", fi, loops[0] if loops else fi.node, ok,
           construct="initialize: emit_variable_init for every global entry, no filter",
           why="state components start unassociated")
    fs = P.func(f"{GEN}.emit_shutdown")
    g = CFG(fs.node)
    loops = [n for n in ast.walk(fs.node) if isinstance(n, ast.For)]
    rel = [n for n in loops if any(isinstance(x, ast.Call) and
                                   dotted(x.func) == "self.emit_variable_deinit"
                                   for x in ast.walk(n))]
    rep = [n for n in loops if "leaked reference" in ast.unparse(n)]
    ok = bool(rel) \
        and len(core(rel[0].body, lambda s_: "self.emit_variable_deinit" in ast.unparse(s_))) == 1 \
        and norm(rel[0].iter) == "sorted(self.sym_kind_table.global_table.items())"
    run.ob("C12.shutdown", fs, rel[0] if rel else fs.node, ok,
           construct="shutdown: release every global entry (no filter)",
           why="a persistent variable that is not released at shutdown leaks")
    # Fortran's .and. / .or. do not short-circuit: a generated condition that tests
    # association must not look through the pointer in the same expression
    m = P.module("dagrt.codegen.fortran")
    n_assoc = 0
    for fn_ in m.functions.values():
        for x in ast.walk(fn_.node):
            txt = None
            if isinstance(x, ast.JoinedStr):
                txt = "".join(v.value if isinstance(v, ast.Constant) else "{}" for v in x.values)
            elif isinstance(x, ast.Constant) and isinstance(x.value, str):
                txt = x.value
            elif isinstance(x, ast.BinOp) and isinstance(x.op, ast.Add):
                txt = string_value(x)
            if not txt or "associated(" not in txt.replace(" ", ""):
                continue
            if isinstance(x, ast.Constant) and any(
                    isinstance(p_, (ast.JoinedStr, ast.BinOp)) and any(y is x for y in ast.walk(p_))
                    and p_ is not x for p_ in ast.walk(fn_.node)
                    if isinstance(p_, ast.JoinedStr) or (isinstance(p_, ast.BinOp)
                                                         and isinstance(p_.op, ast.Add))):
                continue        # part of a longer text that is looked at as a whole
            n_assoc += 1
            low = txt.lower()
            run.ob("C12.shutdown", fn_, x, ".and." not in low and ".or." not in low,
                   construct=f"{fn_.name}: the generated test '{txt.strip()[:60]}' looks at the "
                             f"association status only",
                   why="both operands of .and. are evaluated: the other operand reads a "
                       "reference count or a value through a pointer that is not associated")
    if n_assoc < 2:
        raise AnalysisError(f"fortran.py: only {n_assoc} generated association tests found")


def _depth_zero(conds):
    return any(("loop_nesting_depth" in t) and (
        (t.strip() in ("self.loop_nesting_depth", "self.loop_nesting_depth > 0",
                       "self.loop_nesting_depth != 0", "self.loop_nesting_depth >= 1") and not v)
        or (t.strip() in ("self.loop_nesting_depth == 0", "self.loop_nesting_depth < 1") and v))
        for t, v in conds)


def _releases_guarded(f):
    """Every emit_variable_deinit call of f stands behind 'the loop depth is zero'."""
    from .util import path_conditions
    from .c09 import _stmt_of
    calls = [x for x in ast.walk(f.node) if isinstance(x, ast.Call)
             and dotted(x.func) == "self.emit_variable_deinit"]
    bad = [x for x in calls if not _depth_zero(path_conditions(f.node, _stmt_of(f.node, x) or x))]
    return calls, bad


def _table_users(run, P):
    """The last-use table is about the linear order of the text: inside a `do` loop
    the statement that is last in the text is not the last to run.  Whoever
    decides from the table therefore stands behind a test of the loop depth."""
    from .util import path_conditions
    from .c09 import _stmt_of
    G = P.cls(GEN)
    n = 0
    for name, f in sorted(G.methods.items()):
        reads = [x for x in ast.walk(f.node) if isinstance(x, ast.Attribute)
                 and x.attr == "last_used_stmt_table" and isinstance(x.ctx, ast.Load)]
        if not reads:
            continue
        n += 1
        bad = None
        for x in reads:
            st = _stmt_of(f.node, x)
            conds = path_conditions(f.node, st) if st is not None else set()
            # a loop over the table's items counts as the statement
            if st is None:
                for lp in ast.walk(f.node):
                    if isinstance(lp, ast.For) and any(x is y for y in ast.walk(lp.iter)):
                        conds = path_conditions(f.node, lp)
            guarded = any(("loop_nesting_depth" in t) and (
                (t.strip() in ("self.loop_nesting_depth", "self.loop_nesting_depth > 0",
                               "self.loop_nesting_depth != 0", "self.loop_nesting_depth >= 1") and not v)
                or (t.strip() in ("self.loop_nesting_depth == 0", "self.loop_nesting_depth < 1") and v))
                for t, v in conds)
            if not guarded:
                # ... and <depth is zero>: the table is read, but what is read only counts
                # together with the depth test it stands next to
                conj = [b_ for b_ in ast.walk(f.node) if isinstance(b_, ast.BoolOp) and isinstance(b_.op, ast.And)
                        and any(y is x for y in ast.walk(b_))]
                if any(any(norm(v_).replace(" ", "") in ("notself.loop_nesting_depth", "self.loop_nesting_depth==0")
                           for v_ in b_.values) for b_ in conj):
                    guarded = True
            if not guarded:
                bad = x
        if bad is not None:
            # the table is read everywhere, but what is *emitted* on its word is emitted at
            # depth zero only (a release put off until the loops are closed)
            calls_, unguarded_ = _releases_guarded(f)
            other_emits = [x for x in ast.walk(f.node) if isinstance(x, ast.Call)
                           and (dotted(x.func) or "").startswith("self.emit")
                           and dotted(x.func) != "self.emit_variable_deinit"]
            if calls_ and not unguarded_ and not other_emits:
                bad = None
        run.ob("C12.lastuse", f, bad if bad is not None else f.node, bad is None,
               construct=f"{name} consults self.last_used_stmt_table only where the loop depth is "
                         f"known to be zero",
               why="a release or hand-over decided by 'last use' inside a loop takes the storage "
                   "away in the first iteration while the second still reads it")
    if n < 1:
        raise AnalysisError("no consumer of last_used_stmt_table found in the Fortran generator")


def _lastuse(run, P):
    run.do(_table_users, run, P)
    f = P.func("dagrt.codegen.analysis.var_to_last_dependent_statement_mapping")
    from .util import find, first, has
    filt = [n for n in ast.walk(f.node) if isinstance(n, (ast.Continue, ast.Break))
            or (isinstance(n, ast.If))]
    ok = not filt
    if ok:
        ok = False
        for lp_ in ast.walk(f.node):
            if isinstance(lp_, ast.For) and isinstance(lp_.target, ast.Name):
                st = lp_.target.id
                u_ = first(f"V_u = {st}.get_read_variables().union({st}.get_written_variables())", lp_)
                if u_[0] is None:
                    u_ = first(f"V_u = {st}.get_read_variables() | {st}.get_written_variables()", lp_)
                if u_[0] is not None:
                    for il in ast.walk(lp_):
                        if isinstance(il, ast.For) and dotted(il.iter) == u_[1]["V_u"] \
                                and isinstance(il.target, ast.Name):
                            ok = has(f"V_tbl[{il.target.id}, V_name] = {st}.id", il)
    run.ob("C12.lastuse", f, filt[0] if filt else f.node, ok,
           construct="every statement of every list updates the table for every read "
                     "or written variable (no filter)",
           why="a statement kind left out (e.g. a yield that reads a temporary) does "
               "not count as a use: the temporary is released before it and the "
               "yield moves from freed storage")
    # statements come in emission order
    call = P.func(f"{GEN}.__call__")
    ok = has("var_to_last_dependent_statement_mapping([V_a.name for V_a in V_fd], "
             "[get_statements_in_ast(V_b.ast) for V_b in V_fd])", call.node)
    if not ok and not any(isinstance(x, ast.Call) and dotted(x.func) == "var_to_last_dependent_statement_mapping"
                          for x in ast.walk(call.node)):
        raise AnalysisError("CodeGenerator.__call__ builds the index of last uses in another way; "
                            "not recognised")
    run.ob("C12.lastuse", call, call.node, ok,
           construct="table built from the statements of the final ASTs in emission order",
           why="'last' must mean last in the emitted code")
    d = P.func(f"{GEN}.emit_deinit_for_last_usage_of_vars")
    if not any(isinstance(x, ast.Attribute) and x.attr == "last_used_stmt_table"
               for x in ast.walk(d.node)):
        raise AnalysisError("emit_deinit_for_last_usage_of_vars does not consult "
                            "last_used_stmt_table (another index of last uses); not recognised")
    g = CFG(d.node)
    rel = [n for n in g.nodes if n.kind == "stmt" and any(
        isinstance(x, ast.Call) and dotted(x.func) == "self.emit_variable_deinit"
        for x in walk_fragment(n.ast))]
    guards = [n for n in g.nodes if n.kind == "test" and "loop_nesting_depth" in ast.unparse(n.ast)]
    calls_, unguarded_ = _releases_guarded(d)
    # every other reader of the depth that releases (a flush when the loops are closed)
    G_ = P.cls(GEN)
    for name_, m_ in sorted(G_.methods.items()):
        if m_ is d or name_ == "emit_variable_deinit":
            continue
        queues = {x.func.value.attr for x in ast.walk(d.node) if isinstance(x, ast.Call)
                  and isinstance(x.func, ast.Attribute) and x.func.attr in ("append", "extend", "add")
                  and isinstance(x.func.value, ast.Attribute) and dotted(x.func.value.value) == "self"}
        # (looking a name up in the record - `x not in self.<record>` - is no drain)
        lookups = {id(c_.comparators[0]) for c_ in ast.walk(m_.node) if isinstance(c_, ast.Compare)
                   and len(c_.ops) == 1 and isinstance(c_.ops[0], (ast.In, ast.NotIn))}
        dels_ = {id(t_) for d_ in ast.walk(m_.node) if isinstance(d_, ast.Delete) for t_ in d_.targets}
        drains = any(isinstance(x, ast.Attribute) and x.attr in queues and isinstance(x.ctx, ast.Load)
                     and id(x) not in lookups and id(x) not in dels_
                     for x in ast.walk(m_.node))
        if drains or any(isinstance(x, ast.Attribute) and x.attr == "loop_nesting_depth"
                         and isinstance(x.ctx, ast.Load) for x in ast.walk(m_.node)):
            c2, u2 = _releases_guarded(m_)
            if c2:
                src_ = ast.unparse(m_.node)
                dec_first = "self.loop_nesting_depth -= 1" not in src_ or (
                    src_.index("self.loop_nesting_depth -= 1") < src_.index("self.emit_variable_deinit"))
                run.ob("C12.lastuse", m_, (u2 or c2)[0], not u2 and dec_first,
                       construct=f"{name_}: releases only where the loop depth (after its own "
                                 f"decrement) is zero",
                       why="a release that is put off to the end of a loop must wait for the end "
                           "of the outermost one: after an inner 'end do' the outer loop runs "
                           "the statement again")
    ok = False
    if guards and rel and calls_ and not unguarded_:
        ok = True
    elif guards and rel:
        gd = guards[0]
        # on the branch where depth is non-zero no release is reachable
        lab = "T" if isinstance(gd.ast, ast.Attribute) or "!= 0" in ast.unparse(gd.ast) \
            or "> 0" in ast.unparse(gd.ast) else None
        if isinstance(gd.ast, ast.UnaryOp) or "== 0" in ast.unparse(gd.ast):
            lab = "F"
        succ = [t for t, l in g.succ[gd] if l == lab]
        ok = bool(succ) and all(rel[0] not in g.reachable([s], include_start=True) for s in succ) \
            and not g.always_preceded(rel, guards)
    run.ob("C12.lastuse", d, guards[0].ast if guards else d.node, ok,
           construct="no release at last use while inside a loop (self.loop_nesting_depth)",
           why="the statement runs once per iteration: released in the first "
               "iteration, the variable is read unassociated in the second")
    fb = P.func(f"{GEN}.emit_for_begin")
    fe = P.func(f"{GEN}.emit_for_end")
    inc = "self.loop_nesting_depth += 1" in ast.unparse(fb.node)
    dec = "self.loop_nesting_depth -= 1" in ast.unparse(fe.node)
    run.ob("C12.lastuse", fb, fb.node, inc and dec,
           construct="emit_for_begin increments and emit_for_end decrements the nesting depth",
           why="an unpaired counter suppresses every release after the first loop, "
               "or none inside nested loops")
    inst = d.params[1]
    ok = False
    for n_ in ast.walk(d.node):
        if isinstance(n_, ast.If) and isinstance(n_.test, ast.BoolOp) \
                and isinstance(n_.test.op, ast.And) and len(n_.test.values) == 2:
            m1_ = first(f"{inst}.id == V_last", n_.test.values[0])
            m2_ = first("not is_state_variable(V_var)", n_.test.values[1])
            if m1_[0] is not None and m2_[0] is not None \
                    and has(f"V_last = self.last_used_stmt_table[V_var, self.current_function]",
                            d.node, {"V_last": m1_[1]["V_last"], "V_var": m2_[1]["V_var"]}) \
                    and any(has(f"self.emit_variable_deinit(V_var, ANY)", s_,
                                {"V_var": m2_[1]["V_var"]}) for s_ in n_.body):
                ok = True
    if not ok:
        # the variables ending with this statement looked up in an index keyed by the
        # statement (built from the last-use table, here or elsewhere): not decided
        by_stmt = [x for x in ast.walk(d.node)
                   if (isinstance(x, ast.Subscript) and f"{inst}.id" in norm(x.slice)
                       and not (dotted(x.value) or "").endswith("last_used_stmt_table"))
                   or (isinstance(x, ast.Call) and isinstance(x.func, ast.Attribute) and x.func.attr == "get"
                       and x.args and f"{inst}.id" in norm(x.args[0]))]
        if by_stmt:
            raise AnalysisError(f"{d.qualname}: the variables to release are looked up by statement in "
                                f"{norm(by_stmt[0], 60)}; not decided")
    run.ob("C12.lastuse", d, d.node, ok,
           construct="release only when this statement is the last use and the variable "
                     "is not persistent",
           why="persistent variables live until shutdown")
    for name in ("emit_inst_Assign", "emit_inst_AssignFunctionCall"):
        m = P.func(f"{GEN}.{name}")
        from .util import last_effective
        le = last_effective(m.node.body)
        ok = le is not None and ast.unparse(le) == f"self.emit_deinit_for_last_usage_of_vars({m.arg(0)})"
        run.ob("C12.lastuse", m, m.node, ok,
               construct=f"{name}: release at last use is the last thing emitted",
               why="released before the statement's own code the operands are gone")


def _last_use_not_persistent(run, P):
    """Whatever the generator does to a variable because "this is its last use in the phase"
    (release it, take its reference away) it does not do to a persistent variable: the last
    use in one phase is not the last use of a variable that lives across steps."""
    G_ = P.cls(GEN)
    oracles = {name for name, m in G_.methods.items()
               if name != "emit_deinit_for_last_usage_of_vars" and any(
                   isinstance(x, ast.Attribute) and x.attr == "last_used_stmt_table"
                   and isinstance(x.ctx, ast.Load) for x in ast.walk(m.node))
               and any(isinstance(r, ast.Return) and r.value is not None for r in ast.walk(m.node))
               # (a helper that excludes persistent variables itself answers for per-step ones only)
               and "is_state_variable(" not in ast.unparse(m.node)}
    n = 0
    from .util import path_conditions
    for name, m in sorted(G_.methods.items()):
        for x in ast.walk(m.node):
            if not (isinstance(x, ast.Call) and (dotted(x.func) or "") in {f"self.{o}" for o in oracles}):
                continue
            n += 1
            # the boolean expression the answer is part of, and the conditions around it
            holder = next((b for b in ast.walk(m.node) if isinstance(b, ast.BoolOp)
                           and any(y is x for y in ast.walk(b))), None)
            st_ = next((s_ for s_ in ast.walk(m.node) if isinstance(s_, ast.stmt)
                        and not isinstance(s_, (ast.For, ast.While, ast.FunctionDef, ast.Try, ast.With))
                        and any(y is x for y in ast.walk(s_))), None)
            texts = [ast.unparse(holder)] if holder is not None else []
            if isinstance(st_, ast.If):
                texts.append(ast.unparse(st_.test))
            elif st_ is not None:
                texts += [t for t, _ in path_conditions(m.node, st_)]
            ok = any("is_state_variable(" in t for t in texts)
            run.ob("C12.lastuse", m, x, ok,
                   construct=f"{name}: {norm(x, 50)} is acted on only for a variable that is not persistent "
                             f"(is_state_variable in the same test)",
                   why="a persistent variable whose reference is given away or released at its last use "
                       "in a phase is unassociated (or dangling) when the next step reads it")
    if oracles and n == 0:
        raise AnalysisError(f"last-use helper(s) {sorted(oracles)} are never called")


def reachable_visitors(run, P, rule):
    """Every visit_* method of a type visitor carries a name the dispatcher can form."""
    m = P.module("dagrt.codegen.fortran")
    base = m.classes.get("TypeVisitor")
    tb = m.classes.get("TypeBase")
    if base is None or tb is None or "rec" not in base.methods:
        raise AnalysisError("fortran.TypeVisitor.rec / TypeBase not found")
    rec = base.methods["rec"]
    types = [c for c in P.subclasses(tb) if c is not tb]
    src = ast.unparse(rec.node)
    t = rec.arg(0)
    if f"'visit_' + type({t}).__name__" in src:
        names = {"visit_" + c.name for c in types}
    else:
        # dispatch through a class attribute that holds the method name
        attrs = [x.attr for x in ast.walk(rec.node) if isinstance(x, ast.Attribute)
                 and dotted(x.value) == t]
        names = set()
        for a_ in attrs:
            vals = [c.attrs.get(a_) for c in types]
            if vals and all(isinstance(v, ast.Constant) and isinstance(v.value, str) for v in vals):
                names = {v.value for v in vals}
        if not names:
            raise AnalysisError("TypeVisitor.rec: how the handler name is formed is not recognised")
    n = 0
    for c in sorted(P.subclasses(base), key=lambda c: c.name):
        for name, f in sorted(c.methods.items()):
            if not name.startswith("visit_") or f.cls is not c:
                continue
            n += 1
            run.ob(rule, f, f.node, name in names,
                   construct=f"{c.name}.{name} is a name the dispatcher forms "
                             f"({len(names)} handler names)",
                   why="a handler under a name that is never looked up is dead: the inherited "
                       "handler (often a no-op) runs instead, silently")
    if n < 15:
        raise AnalysisError(f"only {n} visit_* methods found")


def _visitors(run, P):
    reachable_visitors(run, P, "C12.visitors")
    m = P.module("dagrt.codegen.fortran")
    n = 0
    for c in m.classes.values():
        f = c.methods.get("visit_StructureType")
        if f is None or f.cls is not c:
            continue
        for lp in ast.walk(f.node):
            if isinstance(lp, ast.For) and "fortran_type.members" in ast.unparse(lp.iter):
                n += 1
                early = [x for b in lp.body for x in ast.walk(b)
                         if isinstance(x, (ast.Return, ast.Break))]
                run.ob("C12.visitors", f, early[0] if early else lp, not early,
                       construct=f"{c.name}.visit_StructureType: member loop "
                                 f"{'leaves early' if early else 'visits every member'}",
                       why="leaving the loop at the first member without nested storage "
                           "skips the allocation / release / nullification of every "
                           "later pointer member")
    if n < 2:
        raise AnalysisError("fewer than two StructureType member loops found")


def stale_loop_values(fn):
    """Names loaded inside a loop of *fn* all of whose definitions lie inside
    loops that do not enclose the use."""
    par = {}
    for n in ast.walk(fn):
        for c in ast.iter_child_nodes(n):
            par[c] = n

    def loops_of(n):
        ls = []
        while n in par:
            p = par[n]
            if isinstance(p, (ast.For, ast.While)) \
                    and any(n is x for b in p.body for x in ast.walk(b)):
                ls.append(p)
            if isinstance(p, (ast.FunctionDef, ast.AsyncFunctionDef, ast.Lambda)) and p is not fn:
                return None
            n = p
        return ls

    defs = {}
    for n in ast.walk(fn):
        if isinstance(n, ast.Name) and isinstance(n.ctx, ast.Store):
            defs.setdefault(n.id, []).append(n)
        elif isinstance(n, ast.arg):
            defs.setdefault(n.arg, []).append(None)
        elif isinstance(n, (ast.Import, ast.ImportFrom)):
            for a in n.names:
                defs.setdefault((a.asname or a.name).split(".")[0], []).append(None)
        elif isinstance(n, (ast.FunctionDef, ast.ClassDef)) and n is not fn:
            defs.setdefault(n.name, []).append(None)
        elif isinstance(n, ast.ExceptHandler) and n.name:
            defs.setdefault(n.name, []).append(None)
    out = {}
    n_uses = 0
    for n in ast.walk(fn):
        if isinstance(n, ast.Name) and isinstance(n.ctx, ast.Load) and n.id in defs:
            ul = loops_of(n)
            if not ul:
                continue
            n_uses += 1
            ds = defs[n.id]
            if any(d is None for d in ds):
                continue
            fine = False
            for d in ds:
                dl = loops_of(d)
                if dl is None or all(any(l is u for u in ul) for l in dl):
                    fine = True
                    break
            if not fine:
                out.setdefault(n.id, n)
    return out, n_uses


def _fresh(run, P):
    G = P.cls(GEN)
    classes = [G] + [P.cls(f"dagrt.codegen.fortran.{n}") for n in (
        "CodeGeneratingTypeVisitor", "AllocationEmitter", "DeallocationEmitter",
        "InitializationEmitter", "AssignmentEmitter", "ArrayLoopManager")
        if P.module("dagrt.codegen.fortran").classes.get(n) is not None]
    for c in classes:
        for name, m in sorted(c.methods.items()):
            if not any(isinstance(x, (ast.For, ast.While)) for x in ast.walk(m.node)):
                continue
            stale, n_uses = stale_loop_values(m.node)
            run.ob("C12.fresh", m, (sorted(stale.values(), key=lambda x: x.lineno)[0]
                                    if stale else m.node), not stale,
                   construct=f"{c.name}.{name}: every value used inside a loop is computed "
                             f"in that loop or before it"
                             + (f" (stale: {sorted(stale)})" if stale else ""),
                   why="a per-item value (the Fortran type of the user type in hand) that "
                       "is only assigned in an earlier loop still holds that loop's last "
                       "item: every release routine is then generated for the wrong type "
                       "and nested storage is never freed")


def _allocatable(run, P):
    m = P.module("dagrt.codegen.fortran")
    base = m.classes.get("TypeBase")
    if base is None:
        raise AnalysisError("fortran.TypeBase not found")
    for c in sorted(P.subclasses(base), key=lambda c: c.name):
        f = c.methods.get("is_allocatable")
        if f is None:
            continue
        # component attributes, in the order the constructor stores them
        comps = [t.attr for s_ in (ast.walk(c.methods["__init__"].node) if "__init__" in c.methods else [])
                 if isinstance(s_, ast.Assign) for t in s_.targets
                 if isinstance(t, ast.Attribute) and dotted(t.value) == "self"
                 and t.attr in ("element_type", "pointee_type", "members")]
        rets = [r for r in ast.walk(f.node) if isinstance(r, ast.Return) and r.value is not None]
        src = " ; ".join(norm(r.value) for r in rets)
        const = len(rets) == 1 and isinstance(rets[0].value, ast.Constant) \
            and isinstance(rets[0].value.value, bool)
        recursive = []
        for r in rets:
            for x in ast.walk(r.value):
                if isinstance(x, ast.Call) and isinstance(x.func, ast.Attribute) \
                        and x.func.attr == "is_allocatable":
                    recursive.append(x)
        uses_isinstance = any(isinstance(x, ast.Call) and dotted(x.func) in ("isinstance", "type")
                              for x in ast.walk(f.node))
        if c.name == "PointerType":
            ok = const and rets[0].value.value is True
            want = "True (a pointer is what gets allocated)"
        elif not comps:
            ok = const and rets[0].value.value is False
            want = "False (no components)"
        elif "members" in comps:
            ok = bool(recursive) and not uses_isinstance and not const and any(
                isinstance(x, ast.Call) and dotted(x.func) == "any" for r in rets for x in ast.walk(r.value)) \
                and any("self.members" in norm(g.iter) for r in rets for x in ast.walk(r.value)
                        if isinstance(x, (ast.GeneratorExp, ast.ListComp)) for g in x.generators)
            want = "any(<member type>.is_allocatable() for every member)"
        else:
            ok = len(recursive) == 1 and not uses_isinstance \
                and norm(recursive[0].func.value) == f"self.{comps[0]}" and len(rets) == 1 \
                and rets[0].value is recursive[0]
            want = f"self.{comps[0]}.is_allocatable()"
        run.ob("C12.allocatable", f, f.node, ok,
               construct=f"{c.name}.is_allocatable returns {src}; needs {want}",
               why="the allocation check and initialize allocate exactly what "
                   "is_allocatable admits to: a structure that looks only one level "
                   "down leaves nested pointers unassociated while the assignment code "
                   "still writes through them")


def check(run, P):
    run.do(_check_main, run, P)
    from . import generic
    generic.lints(run, P, "C12")


def _release_sites(run, P):
    """(a) the last-use release is the last thing a statement handler emits;
    (b) only the last-use release is suppressed inside loops - the helper that
    also drops the old value of a move is not."""
    from .util import path_conditions
    G = P.cls(GEN)
    n = 0
    for name, m in sorted(G.methods.items()):
        if not name.startswith("emit_inst_"):
            continue
        g = CFG(m.node)
        rel = [nd for nd in g.nodes if nd.kind == "stmt" and nd.ast is not None and any(
            isinstance(x, ast.Call) and dotted(x.func) == "self.emit_deinit_for_last_usage_of_vars"
            for x in walk_fragment(nd.ast))]
        if not rel:
            continue
        n += 1
        after = g.reachable(rel, follow_exc=False)
        later = [nd for nd in after if nd.kind == "stmt" and nd.ast is not None and nd not in rel and any(
            isinstance(x, ast.Call) and (dotted(x.func) or "").startswith("self.emit")
            for x in walk_fragment(nd.ast))]
        run.ob("C12.lastuse", m, rel[0].ast, not later,
               construct=f"{name}: nothing is emitted after the release at last use",
               why="released before the statement's own code, a yielded temporary is freed "
                   "and the return slot is then pointed at the released storage")
    if n < 2:
        raise AnalysisError("C12: statement handlers with a last-use release not found")
    readers = sorted(m.name for m in G.methods.values() for x in ast.walk(m.node)
                     if isinstance(x, ast.Attribute) and x.attr == "loop_nesting_depth"
                     and isinstance(x.ctx, ast.Load)
                     and not any(isinstance(a_, ast.AugAssign) and a_.target is x for a_ in ast.walk(m.node)))
    ok = bool(readers) and not ({"emit_variable_deinit", "emit_user_type_move"} & set(readers))
    run.ob("C12.lastuse", G, None, ok,
           construct=f"the loop depth is consulted by {sorted(set(readers))}, not by the release "
                     f"helper itself",
           why="emit_variable_deinit also emits 'drop the old value' for a move: suppressed "
               "inside loops, a move in a loop body never releases its old target and "
               "storage leaks once per iteration")
    ed = P.method(G, "emit_variable_deinit")
    rets = [r for r in ast.walk(ed.node) if isinstance(r, ast.Return) and r.value is None]
    ok = True
    for r in rets:
        pc = path_conditions(ed.node, r)
        ok = ok and pc <= {("isinstance(sym_kind, UserType)", False)} and bool(pc)
    run.ob("C12.lastuse", ed, rets[0] if rets else ed.node, ok and bool(rets),
           construct="emit_variable_deinit returns early only for kinds that are not user types",
           why="any other reason to skip the release leaks")


def _emitters(run, P):
    m = P.module("dagrt.codegen.fortran")

    def cls(name):
        c = m.classes.get(name)
        if c is None:
            raise AnalysisError(f"fortran.{name} not found")
        return c

    def calls(node, pred):
        return [x for x in ast.walk(node) if isinstance(x, ast.Call) and pred(x)]

    def nodes_with(g, pred):
        return [n for n in g.nodes if n.kind == "stmt" and n.ast is not None
                and any(pred(x) for x in walk_fragment(n.ast) if isinstance(x, ast.Call))]

    def is_rec_into(attr):
        return lambda x: dotted(x.func) == "self.rec" and x.args and (
            (isinstance(x.args[0], ast.Attribute) and x.args[0].attr == attr)
            or (isinstance(x.args[0], ast.Name) and x.args[0].id == attr))

    def emits(prefix):
        def pred(x):
            d = dotted(x.func) or ""
            if not (d.endswith("emit_traceable") or d.endswith(".emit")) or not x.args:
                return False
            a = x.args[0]
            if isinstance(a, ast.Call) and isinstance(a.func, ast.Attribute) and a.func.attr == "format":
                a = a.func.value
            t = string_prefix(a)
            if t is None and isinstance(a, ast.BinOp):
                t = string_prefix(a.left)
            return t is not None and t.startswith(prefix)
        return pred

    # (1) every aggregate is descended into
    for cname in ("CodeGeneratingTypeVisitor", "AssignmentEmitter"):
        c = cls(cname)
        for meth, comp in (("visit_ArrayType", "element_type"), ("visit_PointerType", "pointee_type")):
            f = c.methods.get(meth)
            if f is None:
                continue
            g = CFG(f.node)
            recs = nodes_with(g, is_rec_into(comp))
            # early exits are allowed only under the 'only if allocatable' filter
            filt = [n for n in g.nodes if n.kind == "test"
                    and "recurse_only_if_allocatable" in ast.unparse(n.ast)
                    and "is_allocatable()" in ast.unparse(n.ast)]
            reach = g.reachable([g.entry], avoid=recs + filt, follow_exc=False, include_start=True)
            ok = bool(recs) and g.exit not in reach
            run.ob("C12.emitters", f, recs[0].ast if recs else f.node, ok,
                   construct=f"{cname}.{meth}: self.rec(<type>.{comp}, ...) on every path that passes "
                             f"the allocatable filter",
                   why="a component that is not visited is not allocated, released or copied")
            if meth == "visit_ArrayType":
                ent = nodes_with(g, lambda x: (dotted(x.func) or "").endswith(".enter"))
                lev = nodes_with(g, lambda x: (dotted(x.func) or "").endswith(".leave"))
                ok = bool(ent) and bool(lev) and bool(recs) \
                    and not g.always_preceded(recs, ent) and not g.always_preceded(lev, recs)
                run.ob("C12.emitters", f, ent[0].ast if ent else f.node, ok,
                       construct=f"{cname}.{meth}: loop opened before, closed after, the element code",
                       why="element code outside its loop touches one element, or none")
        f = c.methods.get("visit_StructureType")
        if f is not None:
            loops = [x for x in ast.walk(f.node) if isinstance(x, ast.For)
                     and "members" in ast.unparse(x.iter)]
            ok = False
            if len(loops) == 1 and isinstance(loops[0].target, ast.Tuple) and len(loops[0].target.elts) == 2:
                lp = loops[0]
                mt = dotted(lp.target.elts[1])
                g = CFG(f.node)
                head = g.node_of(lp)
                recs = [n for n in nodes_with(g, is_rec_into(mt))]
                filt = [n for n in g.nodes if n.kind == "test"
                        and "recurse_only_if_allocatable" in ast.unparse(n.ast)
                        and f"{mt}.is_allocatable()" in ast.unparse(n.ast)]
                first = [t for t, lab in g.succ[head] if lab == "T"]
                back = g.reachable(first, avoid=recs + filt, follow_exc=False, include_start=True)
                leaves = [x for x in ast.walk(lp) if isinstance(x, (ast.Break, ast.Return))]
                ok = bool(recs) and head not in back and not leaves
            run.ob("C12.emitters", f, loops[0] if loops else f.node, ok,
                   construct=f"{cname}.visit_StructureType: every member is descended into "
                             f"(the allocatable filter aside), none ends the loop",
                   why="a member that is skipped keeps its storage (leak) or never gets any")
    # (2) order of allocation / release
    al = cls("AllocationEmitter").methods["visit_PointerType"]
    g = CFG(al.node)
    a_nodes = nodes_with(g, emits("allocate("))
    r_nodes = nodes_with(g, lambda x: dotted(x.func) == "self.rec")
    ok = bool(a_nodes) and bool(r_nodes) and not g.always_preceded(r_nodes, a_nodes) \
        and g.exit not in g.reachable([g.entry], avoid=a_nodes, follow_exc=False, include_start=True)
    run.ob("C12.emitters", al, a_nodes[0].ast if a_nodes else al.node, ok,
           construct="AllocationEmitter.visit_PointerType: allocate(<this>) on every path, before "
                     "descending into what it points to",
           why="inner blocks are reached through the outer one")
    de = cls("DeallocationEmitter").methods["visit_PointerType"]
    g = CFG(de.node)
    d_nodes = nodes_with(g, emits("deallocate("))
    n_nodes = nodes_with(g, emits("nullify("))
    r_nodes = nodes_with(g, lambda x: dotted(x.func) == "self.rec")
    i_nodes = nodes_with(g, lambda x: dotted(x.func) == "self.deinitializer")
    uncond = all(g.exit not in g.reachable([g.entry], avoid=[n], follow_exc=False, include_start=True)
                 for n in d_nodes + n_nodes + i_nodes)
    ok = bool(d_nodes) and bool(n_nodes) and bool(r_nodes) and bool(i_nodes) and uncond \
        and not g.always_preceded(d_nodes, i_nodes) and not g.always_preceded(n_nodes, d_nodes) \
        and not any(r in g.reachable(d_nodes, follow_exc=False) for r in r_nodes)
    run.ob("C12.emitters", de, d_nodes[0].ast if d_nodes else de.node, ok,
           construct="DeallocationEmitter.visit_PointerType: descend, deinitialise, deallocate, "
                     "nullify - in this order, the last three on every path",
           why="released before its inner blocks, the inner blocks are unreachable (leak) or "
               "reached through freed storage; not nullified, the next allocation check takes "
               "the dangling pointer for live storage")
    from .util import path_conditions
    for cname_, fn_ in (("AllocationEmitter", al), ("DeallocationEmitter", de)):
        recs_ = [x for x in ast.walk(fn_.node) if isinstance(x, ast.Expr) and isinstance(x.value, ast.Call)
                 and dotted(x.value.func) == "self.rec"]
        ok_ = bool(recs_)
        for r_ in recs_:
            pc = path_conditions(fn_.node, r_)
            ok_ = ok_ and any(v and t.endswith(".is_allocatable()") for t, v in pc) \
                and not any("isinstance(" in t for t, v in pc)
        run.ob("C12.emitters", fn_, recs_[0] if recs_ else fn_.node, ok_,
               construct=f"{cname_}.visit_PointerType descends exactly when <pointee>.is_allocatable()",
               why="a test on the class of the pointee misses what the other traversals reach: "
                   "an array of structures with pointer members has its inner arrays "
                   "allocated and never released")
    ie = cls("InitializationEmitter").methods["visit_PointerType"]
    g = CFG(ie.node)
    n_nodes = nodes_with(g, emits("nullify("))
    ok = bool(n_nodes) and g.exit not in g.reachable([g.entry], avoid=n_nodes, follow_exc=False,
                                                     include_start=True)
    run.ob("C12.emitters", ie, n_nodes[0].ast if n_nodes else ie.node, ok,
           construct="InitializationEmitter.visit_PointerType: nullify(<this>) on every path",
           why="an undefined pointer looks associated to the allocation check")
    for cname in ("AllocationEmitter", "DeallocationEmitter", "InitializationEmitter"):
        v = cls(cname).attrs.get("recurse_only_if_allocatable")
        run.ob("C12.emitters", cls(cname), v, isinstance(v, ast.Constant) and v.value is True,
               construct=f"{cname}.recurse_only_if_allocatable = True",
               why="these traversals have nothing to do below a component without pointers")
