"""C17 - a reported expression match is a genuine match."""

from __future__ import annotations

import ast

from ..engine.cfg import CFG, own_fragments, walk_fragment
from ..engine.match import dotted, norm, func_body_stmts, kwarg, terminal, leaves_with
from ..engine.srcmodel import AnalysisError, Func

EXPLANATION = (
    "Guarded-operation, dominance and value-flow rules over "
    "dagrt.expression._ExtendedUnifier and match(). Decides: in map_call the "
    "type test comes first, the pairing of positional parameters is "
    "dominated by a length-inequality exit and the pairing of keyword values "
    "by a key-set-inequality exit, keyword values are paired in sorted key "
    "order with the same construction on both sides, the record list is "
    "threaded through every recursive unification (parameters and function "
    "symbol) and returned; in map_modulo_identity only variable children in "
    "the candidate set are bound to the identity, the new binding is merged "
    "with the records collected so far (unify_many), and sums/products pass "
    "0/1; match() tests every pre-supplied name against the free-variable "
    "set before use, puts all pre-supplied equations into one record "
    "(a conjunction), builds the default free-variable set from the "
    "template's variables minus the bound names and constructs the unifier "
    "with exactly that set, and indexes the result only after the emptiness "
    "test that raises the documented ValueError. Does not decide: soundness "
    "of pymbolic's matching modulo associativity/commutativity.")

ASSUMPTIONS = [
    "pymbolic.mapper.unifier.UnidirectionalUnifier binds only names in lhs_mapping_candidates; unify_many merges record lists",
]

MOD = "dagrt.expression"


def _check_main(run, P):
    run.rule("C17.type", "map_call: type agreement is tested first", minimum=1)
    run.rule("C17.arity", "positional pairing behind a length test, keyword pairing "
             "behind a key-set test, keyword values in sorted key order on both sides",
             minimum=4)
    run.rule("C17.thread", "the record list is threaded through every recursive "
             "unification and returned", minimum=3)
    run.rule("C17.identity", "identity matching binds only candidate variables, merges "
             "with earlier bindings, and uses 0 for sums and 1 for products", minimum=5)
    run.rule("C17.prematch", "pre-supplied bindings are validated and form one "
             "conjunctive record", minimum=3)
    run.rule("C17.free", "default free variables = template variables minus bound "
             "names, used only when none were given; the unifier is built with exactly "
             "that set", minimum=4)
    run.rule("C17.nomatch", "the first record is taken only after the emptiness test "
             "that raises ValueError", minimum=1)
    run.do(_map_call, run, P)
    run.do(_identity, run, P)
    run.do(_candidates, run, P)
    run.do(_no_rewrite, run, P)
    run.do(_match, run, P)
    run.do(_leaf_shortcuts, run, P)
    run.do(_one_notion_of_variable, run, P)


def _one_notion_of_variable(run, P):
    """The candidates of match() are the template's variables *including function symbols*
    (f in f(x) can be bound).  Every other set of names that match() works out from an
    expression is compared with the candidates, so it is built the same way."""
    f = P.func(f"{MOD}.match")
    calls = [x for x in ast.walk(f.node) if isinstance(x, ast.Call)
             and (dotted(x.func) or "").split(".")[-1] == "get_variables"]
    if not calls:
        raise AnalysisError("match: no get_variables call (how the candidates are found is not read)")
    for x in calls:
        kw = kwarg(x, "include_function_symbols") if "kwarg" in globals() else next(
            (k.value for k in x.keywords if k.arg == "include_function_symbols"), None)
        ok = isinstance(kw, ast.Constant) and kw.value is True
        run.ob("C17.free", f, x, ok,
               construct=f"match: {norm(x, 60)} counts function symbols as variables, as the candidate set does",
               why="a function symbol that is a candidate is invisible to a test made without them: a "
                   "pre-supplied value that calls it is substituted and the symbol is bound to another "
                   "function afterwards - the reported substitution does not give the target")


def _leaf_shortcuts(run, P):
    """A leaf handler of the repository's unifier that hands the records back as they
    came in ("nothing to learn here") does so only for a template name that is no
    candidate: a candidate that meets its own name still has to be bound to it, or a
    later occurrence binds it to something else."""
    from .util import path_conditions
    U = P.cls("dagrt.expression._ExtendedUnifier")
    n = 0
    for name in ("map_variable", "map_constant", "map_foreign"):
        f = U.methods.get(name)
        if f is None:
            continue
        if len(f.params) < 4:
            raise AnalysisError(f"{f.qualname}: (self, expr, other, urecs) expected")
        expr_, urecs_ = f.arg(0), f.arg(2)
        for r in ast.walk(f.node):
            if isinstance(r, ast.Return) and isinstance(r.value, ast.Name) and r.value.id == urecs_:
                conds = path_conditions(f.node, r)
                import re as _re
                known_fixed = False
                for t, pol in conds:
                    if "lhs_mapping_candidates" not in t:
                        continue
                    m_ = _re.match(r"^[\w.]+ (not )?in self\.lhs_mapping_candidates$", t)
                    if m_ is None:
                        raise AnalysisError(f"{f.qualname}: test on the candidates of another form: {t[:60]}")
                    if (m_.group(1) and pol is True) or (not m_.group(1) and pol is False):
                        known_fixed = True
                n += 1
                run.ob("C17.identity", f, r, known_fixed or name != "map_variable",
                       construct=f"{U.name}.{name}: the records are handed back unchanged only for a "
                                 f"template name that is no candidate",
                       why="a candidate matched against its own name stays unbound: the next "
                           "occurrence binds it to another term and the reported substitution "
                           "does not turn the template into the target")
    run.ob("C17.identity", U, None, True,
           construct=f"{U.name}: {n} leaf shortcut(s) examined",
           why="scan summary")


def _map_call(run, P):
    from .util import find, first, has, nodoc
    f = P.func(f"{MOD}._ExtendedUnifier.map_call")
    e, o, u = f.params[1], f.params[2], f.params[3]      # expr, other, urecs
    g = CFG(f.node)
    body = nodoc(f.node.body)
    tests = [n for n in g.nodes if n.kind == "test"]
    if not tests:
        raise AnalysisError("map_call: no tests")
    type_tests = [n for n in tests if norm(n.ast) == f"not isinstance({e}, type({o}))"
                  and leaves_with(n.label.body, ast.Return, "[]")]
    uses = [n for n in g.nodes if n.ast is not None and n not in type_tests and any(
        isinstance(x, ast.Attribute) and isinstance(x.value, ast.Name) and x.value.id in (e, o)
        for fr in own_fragments(n) for x in walk_fragment(fr))]
    ok = bool(type_tests) and bool(uses) and not g.always_preceded(uses, type_tests)
    if not type_tests and any("isinstance(" in norm(n.ast) for n in tests):
        # the kinds of call that may meet are tested in another way (a plain call and a call
        # with an empty set of keyword arguments admitted to each other, say)
        raise AnalysisError("map_call: the test on the kinds of the two calls is of another form; "
                            "not recognised")
    first_if = type_tests[0].label if type_tests else None
    run.ob("C17.type", f, first_if.test if first_if is not None else f.node, bool(ok),
           construct=f"if not isinstance({e}, type({o})): return []  dominates every use of the operands",
           why="a Call matched against a CallWithKwargs (or anything else) would drop "
               "arguments")
    # the two parameter sequences
    pe = first(f"V_pe = {e}.parameters", f.node)
    po = first(f"V_po = {o}.parameters", f.node)
    if pe[0] is None or po[0] is None:
        raise AnalysisError("map_call: parameter sequences not found")
    pe, po = pe[1]["V_pe"], po[1]["V_po"]
    zips = [n for n in g.nodes if n.kind == "for" and norm(n.ast.iter) == f"zip({pe}, {po})"]
    if not zips:
        raise AnalysisError("map_call: zip over the parameter lists not found")
    len_tests = [n for n in tests if norm(n.ast) in (f"len({pe}) != len({po})", f"len({po}) != len({pe})")
                 and leaves_with(n.label.body, ast.Return, "[]")]
    ok = bool(len_tests) and not g.always_preceded(zips, len_tests)
    run.ob("C17.arity", f, len_tests[0].ast if len_tests else zips[0].ast, ok,
           construct=f"if len({pe}) != len({po}): return []  dominates the zip",
           why="zip truncates: f(a) would match f(a, b) with b ignored")
    key_tests = [n for n in tests if norm(n.ast) in (
        f"set({e}.kw_parameters.keys()) != set({o}.kw_parameters.keys())",
        f"set({o}.kw_parameters.keys()) != set({e}.kw_parameters.keys())",
        f"set({e}.kw_parameters) != set({o}.kw_parameters)")
        and leaves_with(n.label.body, ast.Return, "[]")]
    augs = [n for n in g.nodes if n.kind == "stmt" and isinstance(n.ast, ast.AugAssign)
            and dotted(n.ast.target) in (pe, po)]
    ok = bool(key_tests) and bool(augs) and not g.always_preceded(augs, key_tests)
    run.ob("C17.arity", f, key_tests[0].ast if key_tests else f.node, ok,
           construct="if the keyword name sets differ: return []  dominates the keyword pairing",
           why="different keyword names must not match")
    shapes = {}
    for n in augs:
        shapes[dotted(n.ast.target)] = n.ast.value
    sides = {pe: e, po: o}

    def canon(tgt, value):
        import copy
        v = copy.deepcopy(value)
        # rename the side-specific root and comprehension variables
        gens = [x for x in ast.walk(v) if isinstance(x, ast.comprehension)]
        ren = {sides.get(tgt, "?"): "SIDE"}
        k = 0
        for gcomp in gens:
            for t in ast.walk(gcomp.target):
                if isinstance(t, ast.Name):
                    ren.setdefault(t.id, f"c{k}")
                    k += 1
        for x in ast.walk(v):
            if isinstance(x, ast.Name) and x.id in ren:
                x.id = ren[x.id]
        return ast.dump(v)

    same = len(shapes) == 2 and len({canon(t, v) for t, v in shapes.items()}) == 1
    run.ob("C17.arity", f, augs[0].ast if augs else f.node, same,
           construct="keyword values appended by the same construction on both sides",
           why="sides built differently pair different keywords")
    for t, v in sorted(shapes.items()):
        ok = has(f"sorted({sides.get(t, '?')}.kw_parameters.items(), key=ANY)", v) \
            or has(f"sorted({sides.get(t, '?')}.kw_parameters.items())", v)
        run.ob("C17.arity", f, v, ok,
               construct=f"{t} += {norm(v, 90)}",
               why="keyword arguments are a mapping: paired in writing order, "
                   "f(t=a, y=b) matches g(y=q, t=p) with a bound to q")
    # threading
    recs = [x for x in ast.walk(f.node) if isinstance(x, ast.Call) and dotted(x.func) == "self.rec"]
    ok = bool(recs)
    for x in recs:
        par = None
        for s_ in ast.walk(f.node):
            if isinstance(s_, ast.Assign) and s_.value is x:
                par = s_
        ok = ok and par is not None and dotted(par.targets[0]) == u \
            and len(x.args) == 3 and dotted(x.args[2]) == u
    run.ob("C17.thread", f, recs[0] if recs else f.node, ok,
           construct=f"{len(recs)} recursive unifications: {u} = self.rec(a, b, {u})",
           why="a unification whose result is dropped, or that starts from a fresh "
               "record list, loses or ignores bindings")
    fsym = [x for x in recs if norm(x.args[0]) == f"{e}.function" and norm(x.args[1]) == f"{o}.function"]
    fs_nodes = [n for n in g.nodes if n.kind == "stmt" and fsym and any(
        x is fsym[0] for x in walk_fragment(n.ast))]
    ret_nodes = [n for n in g.nodes if n.kind == "stmt" and isinstance(n.ast, ast.Return)
                 and n.ast.value is not None and norm(n.ast.value) == u]
    every_path = bool(fs_nodes) and bool(ret_nodes) and not g.always_preceded(ret_nodes, fs_nodes)
    run.ob("C17.thread", f, fsym[0] if fsym else f.node, bool(fsym) and every_path,
           construct="function symbols are unified on every path that returns the records: "
                     "self.rec(expr.function, other.function, urecs)",
           why="f(x) must not match g(x) unless f is a free variable bound to g")
    rets = [s_ for s_ in func_body_stmts(f.node) if isinstance(s_, ast.Return)]
    ok = bool(rets) and norm(rets[-1].value) == u
    run.ob("C17.thread", f, rets[-1] if rets else f.node, ok,
           construct=f"return {u}",
           why="the threaded records are the result")
    lp = zips[0].ast
    ok = any(isinstance(s_, ast.Assign) and dotted(s_.targets[0]) == u
             and isinstance(s_.value, ast.Call) and dotted(s_.value.func) == "self.rec"
             and isinstance(lp.target, ast.Tuple)
             and [dotted(a_) for a_ in s_.value.args[:2]] == [dotted(t_) for t_ in lp.target.elts]
             for s_ in lp.body)
    alias = P.cls(f"{MOD}._ExtendedUnifier").attrs.get("map_call_with_kwargs")
    run.ob("C17.thread", f, lp, ok and isinstance(alias, ast.Name) and alias.id == "map_call",
           construct="every parameter pair is unified; map_call_with_kwargs = map_call",
           why="all arguments constrain the match")


def _identity(run, P):
    from .util import find, first, has
    f = P.func(f"{MOD}._ExtendedUnifier.map_modulo_identity")
    e, o, u, mp, ide = f.params[1:6]
    comp = [x for x in ast.walk(f.node) if isinstance(x, ast.SetComp)]
    ok = False
    if comp:
        c = comp[0]
        gen = c.generators[0]
        if isinstance(gen.target, ast.Name):
            v = gen.target.id
            conds = " and ".join(norm(i) for i in gen.ifs)
            ok = f"isinstance({v}, Variable)" in conds \
                and f"{v}.name in self.lhs_mapping_candidates" in conds \
                and norm(gen.iter) == f"{e}.children" and dotted(c.elt) in (v, f"{v}.name")
    run.ob("C17.identity", f, comp[0] if comp else f.node, ok,
           construct="identity candidates: children that are Variables in lhs_mapping_candidates",
           why="binding a non-free variable (or a non-variable) to the identity "
               "element reports a match that is not one")
    # the target is taken apart into terms only if it is a node of the template's own class
    from .util import path_conditions
    for x in ast.walk(f.node):
        takes = (isinstance(x, ast.Attribute) and x.attr == "children" and dotted(x.value) == o) or (
            isinstance(x, ast.Call) and dotted(x.func) == "getattr" and len(x.args) >= 2
            and dotted(x.args[0]) == o and isinstance(x.args[1], ast.Constant) and x.args[1].value == "children")
        if not takes:
            continue
        st_ = next((s_ for s_ in ast.walk(f.node) if isinstance(s_, ast.stmt)
                    and not isinstance(s_, (ast.If, ast.For, ast.While, ast.FunctionDef, ast.Try))
                    and any(y is x for y in ast.walk(s_))), None)
        guard = f"isinstance({o}, type({e}))"
        same = st_ is not None and any(t == guard and pol for t, pol in path_conditions(f.node, st_))
        same = same or any(isinstance(ie, ast.IfExp) and norm(ie.test) == guard
                           and any(y is x for y in ast.walk(ie.body)) for ie in ast.walk(f.node))
        run.ob("C17.identity", f, x, same,
               construct=f"the terms of the target are read ({norm(x, 40)}) only under {guard}",
               why="the operands of a product are not the terms of a sum: padded with identity "
                   "elements under the template's operator, x*y 'matches' a + b + c")
    loops = [n for n in ast.walk(f.node) if isinstance(n, ast.For)]
    ok = False
    site = f.node
    ok3 = False
    if loops and isinstance(loops[0].target, ast.Name):
        lp = loops[0]
        var_ = lp.target.id
        ur = first(f"V_ur = self.unification_record_from_equation({var_}, {ide})", lp)
        no = first(f"V_no = type({e})(({ide}, {o}))", f.node)
        ok3 = ur[0] is not None and no[0] is not None
        if no[0] is None and not has(f"type({e})(({o}, {ide}))", f.node) \
                and not has(f"type({e})(({ide},))", f.node):
            # the padded target is built in another way (more identity elements, other
            # children): which bindings that admits is not decided by this clause
            raise AnalysisError("map_modulo_identity: construction of the padded target not recognised")
        if ok3:
            calls = find(f"{mp}({e}, {no[1]['V_no']}, unify_many({u}, {ur[1]['V_ur']}))", lp)
            allcalls = [x for x in ast.walk(lp) if isinstance(x, ast.Call) and dotted(x.func) == mp]
            ok = bool(calls) and len(calls) == len(allcalls)
            site = allcalls[0] if allcalls else lp
    run.ob("C17.identity", f, site, ok,
           construct="mapper(expr, new_other, unify_many(urecs, urec))",
           why="replacing the records collected so far by the identity binding alone "
               "forgets earlier bindings: f(x, b*a) matches f(2, a) with x lost, and "
               "contradictory bindings are accepted")
    run.ob("C17.identity", f, f.node, ok3,
           construct="urec binds the variable to id_element; other becomes (id_element, other)",
           why="x*c ~ c needs x = 1 and the target rewritten as 1*c")
    tests = [n for n in ast.walk(f.node) if isinstance(n, ast.If)]
    ok = bool(tests) and norm(tests[0].test) == f"len({e}.children) != 2 or hasattr({o}, 'children')" \
        and norm(tests[0].body[0]) == f"return {mp}({e}, {o}, {u})"
    if tests and not ok:
        atoms = tests[0].test.values if isinstance(tests[0].test, ast.BoolOp) else [tests[0].test]
        known = {f"len({e}.children) != 2", f"hasattr({o}, 'children')"}
        if any(norm(a_) not in known for a_ in atoms):
            raise AnalysisError(f"map_modulo_identity: restriction test {norm(tests[0].test)[:60]} "
                                f"not recognised")
    run.ob("C17.identity", f, tests[0] if tests else f.node, ok,
           construct="otherwise defer to the ordinary mapper with the records unchanged",
           why="restriction stated in the docstring")
    for name, ident in (("map_sum", 0), ("map_product", 1)):
        m = P.func(f"{MOD}._ExtendedUnifier.{name}")
        calls = [x for x in ast.walk(m.node) if isinstance(x, ast.Call)
                 and dotted(x.func) == "self.map_modulo_identity"]
        ok = bool(calls) and isinstance(calls[0].args[-1], ast.Constant) \
            and calls[0].args[-1].value == ident and len(calls[0].args) == 5
        if ok:
            marg = calls[0].args[3]
            ok = norm(marg) == f"super().{name}" or (
                isinstance(marg, ast.Name) and has(f"{marg.id} = super().{name}", m.node))
        run.ob("C17.identity", m, calls[0] if calls else m.node, ok,
               construct=f"{name}: identity element {ident}, super().{name} as mapper",
               why="the identity of + is 0 and of * is 1")


def _rewrites(P):
    f = P.func(f"{MOD}.match")
    U = P.cls(f"{MOD}._ExtendedUnifier")
    return [(fn, x) for fn in [f] + list(U.methods.values()) for x in ast.walk(fn.node)
            if isinstance(x, ast.Call)
            and (dotted(x.func) or "").split(".")[-1] in ("substitute", "SubstitutionMapper",
                                                          "make_subst_func")]


def _no_rewrite(run, P):
    """Known bindings are constraints handed to the unifier, never a rewriting of
    the template: the matcher does not substitute."""
    f = P.func(f"{MOD}.match")
    U = P.cls(f"{MOD}._ExtendedUnifier")
    sites = []
    for fn in [f] + list(U.methods.values()):
        for x in ast.walk(fn.node):
            if isinstance(x, ast.Call):
                d = (dotted(x.func) or "").split(".")[-1]
                if d in ("substitute", "SubstitutionMapper", "make_subst_func"):
                    sites.append((fn, x))
    if sites:
        # known bindings are put into the template: sound exactly when no variable of a
        # substituted value can be taken for a free template variable afterwards (renaming
        # apart) - a property of the names at run time, not decided here
        raise AnalysisError(f"match: known bindings are applied by {norm(sites[0][1], 40)}; whether "
                            f"that is capture-free is not decided")
    run.ob("C17.prematch", sites[0][0] if sites else f, sites[0][1] if sites else f.node, not sites,
           construct="match / _ExtendedUnifier never substitute into the template"
                     + (f" (found {norm(sites[0][1], 50)} in {sites[0][0].qualname})" if sites else ""),
           why="the values of known bindings are terms of the target: put into the template, a "
               "target variable that is called like a free template variable is captured and "
               "re-bound (f(a,b) ~ f(c,c) with a=b gives {a: b, b: c}, whose instance is f(b,c))")


def _candidates(run, P):
    """The set the unifier is built with is the set the pre-supplied bindings are
    checked against, and on the default path the bound names have been taken
    out of it before either use - wherever the loop over pre_match lives."""
    from ..engine.cfg import own_fragments
    if _rewrites(P):
        raise AnalysisError("match: pre-supplied bindings are applied by substitution; the "
                            "candidate-set clauses do not read that form")
    f = P.func(f"{MOD}.match")
    g = CFG(f.node)
    ctors = [n for n in g.nodes if n.kind == "stmt" and any(
        isinstance(x, ast.Call) and dotted(x.func) == "_ExtendedUnifier" for x in walk_fragment(n.ast))]
    if len(ctors) != 1:
        raise AnalysisError("match: _ExtendedUnifier(...) not found")
    U = ctors[0]
    call = [x for x in walk_fragment(U.ast) if isinstance(x, ast.Call)
            and dotted(x.func) == "_ExtendedUnifier"][0]
    if not (call.args and isinstance(call.args[0], ast.Name)):
        raise AnalysisError("match: the unifier is not built from a plain name")
    S = call.args[0].id
    pm, bound = "pre_match", "bound_variable_names"
    if pm not in f.params or bound not in f.params:
        raise AnalysisError("match: parameters pre_match / bound_variable_names expected")

    def assigns_S(n):
        a = n.ast
        if n.kind != "stmt":
            return False
        if isinstance(a, ast.Assign):
            return any(isinstance(t, ast.Name) and t.id == S for t in a.targets)
        if isinstance(a, ast.AugAssign):
            return isinstance(a.target, ast.Name) and a.target.id == S
        return False

    # where are the pre-supplied names checked?  In match itself, or in a helper
    checks = []
    for n in g.nodes:
        if n.kind == "test" and isinstance(n.ast, ast.Compare) and len(n.ast.ops) == 1 \
                and isinstance(n.ast.ops[0], (ast.In, ast.NotIn)) \
                and any(isinstance(lp, ast.For) and "items" in ast.unparse(lp.iter)
                        and pm in ast.unparse(lp.iter)
                        and any(n.label is y for y in ast.walk(lp)) for lp in ast.walk(f.node)):
            checks.append((n, dotted(n.ast.comparators[0])))
    if not checks:
        for n in g.nodes:
            if n.kind != "stmt":
                continue
            for x in walk_fragment(n.ast):
                if isinstance(x, ast.Call) and isinstance(x.func, ast.Name) \
                        and any(dotted(a) == pm for a in x.args):
                    h = P.resolve_name(f, x.func.id)
                    if not isinstance(h, Func):
                        continue
                    pidx = [i for i, a in enumerate(x.args) if dotted(a) == pm][0]
                    hp = h.params[pidx]
                    for t in ast.walk(h.node):
                        if isinstance(t, ast.Compare) and len(t.ops) == 1 \
                                and isinstance(t.ops[0], (ast.In, ast.NotIn)) \
                                and isinstance(t.comparators[0], ast.Name) \
                                and t.comparators[0].id in h.params \
                                and any(isinstance(lp, ast.For) and hp in ast.unparse(lp.iter)
                                        and any(t is y for y in ast.walk(lp)) for lp in ast.walk(h.node)):
                            ai = h.params.index(t.comparators[0].id)
                            if ai < len(x.args):
                                checks.append((n, dotted(x.args[ai])))
    if not checks:
        raise AnalysisError("match: the check of pre_match names against the candidates not found")
    cn, cset = checks[0]
    later = [n for n in g.reachable([cn], follow_exc=False) if assigns_S(n)
             and U in g.reachable([n], follow_exc=False)]
    run.ob("C17.prematch", f, cn.ast if cn.ast is not None else f.node, cset == S and not later,
           construct=f"pre-supplied names are checked against '{cset}', the set the unifier is built "
                     f"with ('{S}'), and that set is not changed in between"
                     + (f" (changed by {norm(later[0].ast, 50)})" if later else ""),
           why="checked against the candidates before the bound names are taken out, a binding "
               "for a bound variable is accepted instead of raising the documented error")
    # default path: bound names subtracted before use
    defaults = [n for n in g.nodes if assigns_S(n) and any(
        isinstance(x, ast.Call) and (dotted(x.func) or "").endswith("get_variables")
        for x in walk_fragment(n.ast))]
    subs = [n for n in g.nodes if assigns_S(n) and bound in ast.unparse(n.ast)
            and (isinstance(n.ast, ast.AugAssign) and isinstance(n.ast.op, ast.Sub)
                 or any(isinstance(x, ast.BinOp) and isinstance(x.op, ast.Sub) for x in ast.walk(n.ast))
                 or "difference" in ast.unparse(n.ast))]
    if not defaults:
        raise AnalysisError("match: default candidate set (variables of the template) not found")
    ok = bool(subs) and U not in g.reachable(defaults, avoid=subs, follow_exc=False) \
        and cn not in g.reachable(defaults, avoid=subs, follow_exc=False)
    run.ob("C17.free", f, subs[0].ast if subs else defaults[0].ast, ok,
           construct=f"default candidates: every path from '{norm(defaults[0].ast, 50)}' to the check "
                     f"of pre_match and to the unifier takes out {bound}",
           why="only variables that are not declared bound may be bound")


def _match(run, P):
    from .util import find, first, has
    if _rewrites(P):
        raise AnalysisError("match: pre-supplied bindings are applied by substitution; the "
                            "pre-match clauses do not read that form")
    f = P.func(f"{MOD}.match")
    g = CFG(f.node)
    loops = [n for n in ast.walk(f.node) if isinstance(n, ast.For)
             and norm(n.iter) == "pre_match.items()"]
    if len(loops) != 1 or not isinstance(loops[0].target, ast.Tuple):
        raise AnalysisError("match: pre_match loop not found")
    lp = loops[0]
    kname, vname = (dotted(t) for t in lp.target.elts)
    checks = [i for i, s_ in enumerate(lp.body) if isinstance(s_, ast.If)
              and norm(s_.test) == f"{kname} not in free_variable_names"
              and leaves_with(s_.body, ast.Raise)]
    uses_ = [i for i, s_ in enumerate(lp.body) if any(
        isinstance(x, ast.Call) and isinstance(x.func, ast.Attribute) and x.func.attr == "append"
        for x in ast.walk(s_))]
    ok = bool(checks) and bool(uses_) and checks[0] < min(uses_)
    first_stmt = lp.body[checks[0]] if checks else lp.body[0]
    run.ob("C17.prematch", f, first_stmt, ok,
           construct="every pre_match name: if name not in free_variable_names: raise ValueError",
           why="a pre-supplied binding for a non-free name would bind a bound variable")
    recs = [x for x in ast.walk(f.node) if isinstance(x, ast.Call)
            and dotted(x.func) == "UnificationRecord"]
    in_loop = [x for x in recs if any(y is x for y in ast.walk(lp))]
    ok = len(recs) == 1 and not in_loop
    eq_list = None
    if ok:
        eq_list = dotted(recs[0].args[0]) if recs[0].args else None
        ok = bool(eq_list) and has(f"{eq_list}.append(ANY)", lp)
    run.ob("C17.prematch", f, recs[0] if recs else lp, ok,
           construct="one UnificationRecord built after the loop from all equations",
           why="one record per entry turns the pre-supplied bindings into alternatives: "
               "a match that honours only one of them is accepted")
    ok = bool(eq_list) and has(f"{eq_list}.append((Variable({kname}), {vname}))", lp)
    run.ob("C17.prematch", f, lp, ok,
           construct="equation (Variable(name), expr) for every entry",
           why="binding direction")
    ok = has(f"free_variable_names = get_variables({f.arg(0)}, include_function_symbols=True)", f.node) \
        and has("free_variable_names -= set(bound_variable_names)", f.node)
    dflt = [n for n in ast.walk(f.node) if isinstance(n, ast.If) and any(
        has(f"free_variable_names = get_variables({f.arg(0)}, include_function_symbols=True)", s_)
        for s_ in n.body)]
    if not dflt and not any(isinstance(x, ast.Call) and dotted(x.func) in (
            "get_variables", "dagrt.utils.get_variables") for x in ast.walk(f.node)):
        raise AnalysisError("match: the default set of free variables is computed elsewhere; "
                            "not recognised")
    only_none = bool(dflt) and all(norm(n.test) == "free_variable_names is None" for n in dflt)
    rebinds = [n for n in ast.walk(f.node) if isinstance(n, (ast.Assign, ast.AugAssign))
               and any(dotted(t) == "free_variable_names"
                       for t in (n.targets if isinstance(n, ast.Assign) else [n.target]))]
    inside = all(any(x is n for d_ in dflt for x in ast.walk(d_)) for n in rebinds)
    run.ob("C17.free", f, dflt[0] if dflt else f.node, only_none and inside,
           construct="the default applies only when free_variable_names is None; a given "
                     "collection (empty included) is used as it is",
           why="an explicitly empty declaration means nothing may be bound; treating it "
               "as absent makes every template variable a candidate")
    run.ob("C17.free", f, f.node, ok,
           construct="default: variables of the template (incl. function symbols) minus bound names",
           why="only declared free variables may be bound")
    # every look at "which variables occur" in the matcher counts function symbols
    U = P.cls(f"{MOD}._ExtendedUnifier")
    gv_calls = [(fn, x) for fn in [f] + list(U.methods.values()) for x in ast.walk(fn.node)
                if isinstance(x, ast.Call) and dotted(x.func) in ("get_variables",
                                                                  "dagrt.utils.get_variables")]
    bad_gv = [(fn, x) for fn, x in gv_calls
              if not (isinstance(kwarg(x, "include_function_symbols"), ast.Constant)
                      and kwarg(x, "include_function_symbols").value is True)]
    run.ob("C17.free", bad_gv[0][0] if bad_gv else f, bad_gv[0][1] if bad_gv else f.node,
           bool(gv_calls) and not bad_gv,
           construct=f"{len(gv_calls)} get_variables() call(s) in match / _ExtendedUnifier, each with "
                     f"include_function_symbols=True",
           why="match() treats function symbols as free variables; a test 'this part has "
               "no free variables' that leaves them out accepts f(c) ~ f(c) although f is "
               "bound to g elsewhere")
    ctor = [x for x in ast.walk(f.node) if isinstance(x, ast.Call)
            and dotted(x.func) == "_ExtendedUnifier"]
    ok = len(ctor) == 1 and len(ctor[0].args) == 1 and dotted(ctor[0].args[0]) == "free_variable_names"
    run.ob("C17.free", f, ctor[0] if ctor else f.node, ok,
           construct="_ExtendedUnifier(free_variable_names)",
           why="the unifier binds exactly the names it is constructed with")
    # the records: result of calling the unifier
    un = first("V_un = _ExtendedUnifier(free_variable_names)", f.node)
    rec_name = None
    if un[0] is not None:
        r = first(f"V_recs = {un[1]['V_un']}(ANY, ANY, ANY)", f.node)
        if r[0] is not None:
            rec_name = r[1]["V_recs"]
    if rec_name is None:
        raise AnalysisError("match: record list not identified")
    idx = [n for n in g.nodes if n.kind == "stmt" and any(
        isinstance(x, ast.Subscript) and dotted(x.value) == rec_name
        and isinstance(x.slice, ast.Constant) and x.slice.value == 0
        for x in walk_fragment(n.ast))]
    guards = [n for n in g.nodes if n.kind == "test" and norm(n.ast) == f"not {rec_name}"
              and leaves_with(n.label.body, ast.Raise)
              and "ValueError" in ast.unparse(terminal(n.label.body))]
    ok = bool(idx) and bool(guards) and not g.always_preceded(idx, guards)
    run.ob("C17.nomatch", f, idx[0].ast if idx else f.node, ok,
           construct="records[0] is dominated by 'if not records: raise ValueError'",
           why="no match must raise the documented error, not IndexError or a wrong substitution")


def check(run, P):
    run.do(_check_main, run, P)
    from . import generic
    generic.lints(run, P, "C17")
