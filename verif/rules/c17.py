"""C17 - a reported expression match is a genuine match."""

from __future__ import annotations

import ast

from ..engine.cfg import CFG, own_fragments, walk_fragment
from ..engine.match import dotted, norm, func_body_stmts, kwarg
from ..engine.srcmodel import AnalysisError

EXPLANATION = (
    "Guarded-operation, dominance and value-flow rules over "
    "dagrt.expression._ExtendedUnifier and match(). Decides: in map_call the "
    "type test comes first, the pairing of positional parameters is "
    "dominated by a length-inequality exit and the pairing of keyword values "
    "by a key-set-inequality exit, keyword values are paired in sorted key "
    "order with the same construction on both sides, the record list is "
    "threaded through every recursive unification (parameters and function "
    "symbol) and returned; in map_modulo_identity only variable children in "
    "the candidate set are bound to the identity, the new binding is merged "
    "with the records collected so far (unify_many), and sums/products pass "
    "0/1; match() tests every pre-supplied name against the free-variable "
    "set before use, puts all pre-supplied equations into one record "
    "(a conjunction), builds the default free-variable set from the "
    "template's variables minus the bound names and constructs the unifier "
    "with exactly that set, and indexes the result only after the emptiness "
    "test that raises the documented ValueError. Does not decide: soundness "
    "of pymbolic's matching modulo associativity/commutativity.")

ASSUMPTIONS = [
    "pymbolic.mapper.unifier.UnidirectionalUnifier binds only names in lhs_mapping_candidates; unify_many merges record lists",
]

MOD = "dagrt.expression"


def check(run, P):
    run.rule("C17.type", "map_call: type agreement is tested first", minimum=1)
    run.rule("C17.arity", "positional pairing behind a length test, keyword pairing "
             "behind a key-set test, keyword values in sorted key order on both sides",
             minimum=4)
    run.rule("C17.thread", "the record list is threaded through every recursive "
             "unification and returned", minimum=3)
    run.rule("C17.identity", "identity matching binds only candidate variables, merges "
             "with earlier bindings, and uses 0 for sums and 1 for products", minimum=5)
    run.rule("C17.prematch", "pre-supplied bindings are validated and form one "
             "conjunctive record", minimum=3)
    run.rule("C17.free", "default free variables = template variables minus bound "
             "names; the unifier is built with exactly that set", minimum=2)
    run.rule("C17.nomatch", "the first record is taken only after the emptiness test "
             "that raises ValueError", minimum=1)
    _map_call(run, P)
    _identity(run, P)
    _match(run, P)


def _map_call(run, P):
    f = P.func(f"{MOD}._ExtendedUnifier.map_call")
    g = CFG(f.node)
    tests = [n for n in g.nodes if n.kind == "test"]
    if not tests:
        raise AnalysisError("map_call: no tests")
    first = tests[0]
    ok = norm(first.ast) == "not isinstance(expr, type(other))" \
        and isinstance(first.label.body[0], ast.Return) \
        and norm(first.label.body[0].value) == "[]" \
        and first.label is f.node.body[0] or (
            isinstance(f.node.body[0], ast.Expr) and first.label is f.node.body[1])
    run.ob("C17.type", f, first.ast, bool(ok),
           construct=f"first statement: if {norm(first.ast)}: return []",
           why="a Call matched against a CallWithKwargs (or anything else) would drop "
               "arguments")
    # length test
    len_tests = [n for n in tests if "len(" in norm(n.ast) and "!=" in norm(n.ast)
                 and isinstance(n.label.body[0], ast.Return)]
    zips = [n for n in g.nodes if n.kind == "for" and isinstance(n.ast.iter, ast.Call)
            and dotted(n.ast.iter.func) == "zip"]
    if not zips:
        raise AnalysisError("map_call: zip over the parameter lists not found")
    ok = bool(len_tests) and not g.always_preceded(zips, len_tests)
    lt = norm(len_tests[0].ast) if len_tests else ""
    ok = ok and "expr_parameters" in lt and "other_parameters" in lt
    run.ob("C17.arity", f, len_tests[0].ast if len_tests else zips[0].ast, ok,
           construct=f"if {lt}: return []  dominates the zip",
           why="zip truncates: f(a) would match f(a, b) with b ignored")
    key_tests = [n for n in tests if "kw_parameters.keys()" in norm(n.ast)
                 and "!=" in norm(n.ast) and isinstance(n.label.body[0], ast.Return)]
    augs = [n for n in g.nodes if n.kind == "stmt" and isinstance(n.ast, ast.AugAssign)
            and "kw_parameters" in ast.unparse(n.ast.value)]
    ok = bool(key_tests) and bool(augs) and not g.always_preceded(augs, key_tests)
    kt = norm(key_tests[0].ast) if key_tests else ""
    ok = ok and "set(expr.kw_parameters.keys())" in kt and "set(other.kw_parameters.keys())" in kt
    run.ob("C17.arity", f, key_tests[0].ast if key_tests else f.node, ok,
           construct=f"if {kt}: return []  dominates the keyword pairing",
           why="different keyword names must not match")
    # both sides built the same way, sorted by key
    shapes = {}
    for n in augs:
        tgt = dotted(n.ast.target)
        src = ast.unparse(n.ast.value)
        shapes[tgt] = src
    sides = {"expr_parameters": "expr", "other_parameters": "other"}
    norm_shapes = {t: s.replace(sides.get(t, "?") + ".", "X.") for t, s in shapes.items()}
    same = len(set(norm_shapes.values())) == 1 and len(shapes) == 2
    run.ob("C17.arity", f, augs[0].ast if augs else f.node, same,
           construct=f"keyword values appended by the same construction on both sides",
           why="sides built differently pair different keywords")
    for t, s in sorted(shapes.items()):
        ok = "sorted(" in s and ".kw_parameters.items()" in s
        run.ob("C17.arity", f, f.node, ok,
               construct=f"{t} += {s[:90]}",
               why="keyword arguments are a mapping: paired in writing order, "
                   "f(t=a, y=b) matches g(y=q, t=p) with a bound to q")
    # threading
    recs = [x for x in ast.walk(f.node) if isinstance(x, ast.Call) and dotted(x.func) == "self.rec"]
    ok = bool(recs)
    for x in recs:
        par = None
        for s in ast.walk(f.node):
            if isinstance(s, ast.Assign) and s.value is x:
                par = s
        ok = ok and par is not None and dotted(par.targets[0]) == "urecs" \
            and len(x.args) == 3 and dotted(x.args[2]) == "urecs"
    run.ob("C17.thread", f, recs[0] if recs else f.node, ok,
           construct=f"{len(recs)} recursive unifications: urecs = self.rec(a, b, urecs)",
           why="a unification whose result is dropped, or that starts from a fresh "
               "record list, loses or ignores bindings")
    fsym = [x for x in recs if norm(x.args[0]) == "expr.function" and norm(x.args[1]) == "other.function"]
    run.ob("C17.thread", f, fsym[0] if fsym else f.node, bool(fsym),
           construct="function symbols are unified: self.rec(expr.function, other.function, urecs)",
           why="f(x) must not match g(x) unless f is a free variable bound to g")
    rets = [s for s in func_body_stmts(f.node) if isinstance(s, ast.Return)]
    ok = bool(rets) and norm(rets[-1].value) == "urecs"
    run.ob("C17.thread", f, rets[-1] if rets else f.node, ok,
           construct="return urecs",
           why="the threaded records are the result")
    # zip pairs and recursion in the loop
    lp = zips[0].ast
    ok = any(isinstance(s, ast.Assign) and dotted(s.targets[0]) == "urecs"
             and isinstance(s.value, ast.Call) and dotted(s.value.func) == "self.rec"
             for s in lp.body) and norm(lp.iter) == "zip(expr_parameters, other_parameters)"
    alias = P.cls(f"{MOD}._ExtendedUnifier").attrs.get("map_call_with_kwargs")
    run.ob("C17.thread", f, lp, ok and isinstance(alias, ast.Name) and alias.id == "map_call",
           construct="every parameter pair is unified; map_call_with_kwargs = map_call",
           why="all arguments constrain the match")


def _identity(run, P):
    f = P.func(f"{MOD}._ExtendedUnifier.map_modulo_identity")
    src = ast.unparse(f.node)
    comp = [x for x in ast.walk(f.node) if isinstance(x, ast.SetComp)]
    ok = False
    if comp:
        c = comp[0]
        conds = " and ".join(norm(i) for i in c.generators[0].ifs)
        ok = "isinstance(term, Variable)" in conds and "term.name in self.lhs_mapping_candidates" in conds \
            and norm(c.generators[0].iter) == "expr.children"
    run.ob("C17.identity", f, comp[0] if comp else f.node, ok,
           construct="identity candidates: children that are Variables in lhs_mapping_candidates",
           why="binding a non-free variable (or a non-variable) to the identity "
               "element reports a match that is not one")
    mc = [x for x in ast.walk(f.node) if isinstance(x, ast.Call) and dotted(x.func) == "mapper"
          and len(x.args) == 3]
    loop_calls = []
    for lp in ast.walk(f.node):
        if isinstance(lp, ast.For):
            loop_calls += [x for x in ast.walk(lp) if x in mc]
    ok = bool(loop_calls)
    for x in loop_calls:
        a = x.args[2]
        ok = ok and isinstance(a, ast.Call) and dotted(a.func) == "unify_many" \
            and len(a.args) == 2 and dotted(a.args[0]) == "urecs" and dotted(a.args[1]) == "urec"
    run.ob("C17.identity", f, loop_calls[0] if loop_calls else f.node, ok,
           construct="mapper(expr, new_other, unify_many(urecs, urec))",
           why="replacing the records collected so far by the identity binding alone "
               "forgets earlier bindings: f(x, b*a) matches f(2, a) with x lost, and "
               "contradictory bindings are accepted")
    ok = "urec = self.unification_record_from_equation(variable, id_element)" in src \
        and "new_other = type(expr)((id_element, other))" in src
    run.ob("C17.identity", f, f.node, ok,
           construct="urec binds the variable to id_element; other becomes (id_element, other)",
           why="x*c ~ c needs x = 1 and the target rewritten as 1*c")
    tests = [n for n in ast.walk(f.node) if isinstance(n, ast.If)]
    ok = bool(tests) and norm(tests[0].test) == "len(expr.children) != 2 or hasattr(other, 'children')" \
        and norm(tests[0].body[0]) == "return mapper(expr, other, urecs)"
    run.ob("C17.identity", f, tests[0] if tests else f.node, ok,
           construct="otherwise defer to the ordinary mapper with the records unchanged",
           why="restriction stated in the docstring")
    for name, ident in (("map_sum", 0), ("map_product", 1)):
        m = P.func(f"{MOD}._ExtendedUnifier.{name}")
        calls = [x for x in ast.walk(m.node) if isinstance(x, ast.Call)
                 and dotted(x.func) == "self.map_modulo_identity"]
        ok = bool(calls) and isinstance(calls[0].args[-1], ast.Constant) \
            and calls[0].args[-1].value == ident \
            and f"mapper = super().{name}" in ast.unparse(m.node)
        run.ob("C17.identity", m, calls[0] if calls else m.node, ok,
               construct=f"{name}: identity element {ident}, super().{name} as mapper",
               why="the identity of + is 0 and of * is 1")


def _match(run, P):
    f = P.func(f"{MOD}.match")
    g = CFG(f.node)
    # pre_match loop
    loops = [n for n in ast.walk(f.node) if isinstance(n, ast.For)
             and "pre_match.items()" in ast.unparse(n.iter)]
    if len(loops) != 1:
        raise AnalysisError("match: pre_match loop not found")
    lp = loops[0]
    first = lp.body[0]
    ok = isinstance(first, ast.If) and norm(first.test) == "name not in free_variable_names" \
        and isinstance(first.body[0], ast.Raise)
    run.ob("C17.prematch", f, first, ok,
           construct="every pre_match name: if name not in free_variable_names: raise ValueError",
           why="a pre-supplied binding for a non-free name would bind a bound variable")
    recs = [x for x in ast.walk(f.node) if isinstance(x, ast.Call)
            and dotted(x.func) == "UnificationRecord"]
    in_loop = [x for x in recs if any(y is x for y in ast.walk(lp))]
    ok = len(recs) == 1 and not in_loop
    if ok:
        # built from the list that the loop fills
        arg = dotted(recs[0].args[0]) if recs[0].args else None
        fills = any(isinstance(x, ast.Call) and dotted(x.func) == f"{arg}.append"
                    for x in ast.walk(lp))
        ok = fills
    run.ob("C17.prematch", f, recs[0] if recs else lp, ok,
           construct="one UnificationRecord built after the loop from all equations",
           why="one record per entry turns the pre-supplied bindings into alternatives: "
               "a match that honours only one of them is accepted")
    ok = any(isinstance(x, ast.Call) and "append" in (dotted(x.func) or "")
             and "(Variable(name), expr)" in ast.unparse(x) for x in ast.walk(lp))
    run.ob("C17.prematch", f, lp, ok,
           construct="equation (Variable(name), expr) for every entry",
           why="binding direction")
    # free variables
    src = ast.unparse(f.node)
    ok = "free_variable_names = get_variables(template, include_function_symbols=True)" in src \
        and "free_variable_names -= set(bound_variable_names)" in src
    run.ob("C17.free", f, f.node, ok,
           construct="default: variables of the template (incl. function symbols) minus bound names",
           why="only declared free variables may be bound")
    ctor = [x for x in ast.walk(f.node) if isinstance(x, ast.Call)
            and dotted(x.func) == "_ExtendedUnifier"]
    ok = len(ctor) == 1 and len(ctor[0].args) == 1 and dotted(ctor[0].args[0]) == "free_variable_names"
    run.ob("C17.free", f, ctor[0] if ctor else f.node, ok,
           construct="_ExtendedUnifier(free_variable_names)",
           why="the unifier binds exactly the names it is constructed with")
    # records[0] guarded
    idx = [n for n in g.nodes if n.kind == "stmt" and any(
        isinstance(x, ast.Subscript) and dotted(x.value) == "records"
        and isinstance(x.slice, ast.Constant) and x.slice.value == 0
        for x in walk_fragment(n.ast))]
    guards = [n for n in g.nodes if n.kind == "test" and norm(n.ast) == "not records"
              and isinstance(n.label.body[0], ast.Raise)
              and "ValueError" in ast.unparse(n.label.body[0])]
    ok = bool(idx) and bool(guards) and not g.always_preceded(idx, guards)
    run.ob("C17.nomatch", f, idx[0].ast if idx else f.node, ok,
           construct="records[0] is dominated by 'if not records: raise ValueError'",
           why="no match must raise the documented error, not IndexError or a wrong substitution")
