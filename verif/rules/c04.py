"""C04 - each step runs every statement of the phase once, after its
dependencies."""

from __future__ import annotations

import ast

from ..engine.cfg import CFG, own_fragments, walk_fragment
from ..engine.match import dotted, norm, func_body_stmts
from ..engine.srcmodel import AnalysisError, Func
from . import stmtmodel as sm

EXPLANATION = (
    "CFG dominance / pairing / exactly-once rules over "
    "dagrt.language.ExecutionController and its use in "
    "NumpyInterpreter.run_single_step. Decides: post-order insertion with the "
    "three membership exits; new batch placed at the end the executor consumes "
    "from, with the id set updated; mark-executed before guard evaluation and "
    "dispatch, pop paired with id-set removal, one dispatch by exec_method per "
    "iteration, false guard skips dispatch only; reset() clears every "
    "container the constructor creates and dominates update_plan(roots = "
    "phase.depends_on); ExecutionPhase.depends_on = ids minus the union of all "
    "depends_on; every statement attribute the controller reads exists on "
    "every statement kind. Does not decide: the clause about a statement that "
    "is requested while already planned (needs a history).")

ASSUMPTIONS = [
    "ExecutionController keeps its state in attributes assigned in __init__",
    "record fields of a statement are the keywords passed explicitly along the __init__ chain",
]

EC = "dagrt.language.ExecutionController"


def _nodes_calling(g, name, attr_only=False):
    """CFG nodes whose own fragments contain a call to dotted *name*."""
    def pred(n, frags):
        for fr in frags:
            for x in walk_fragment(fr):
                if isinstance(x, ast.Call):
                    d = dotted(x.func)
                    if d == name or (attr_only and d and d.endswith("." + name)):
                        return True
        return False
    return g.find(pred)


def _check_main(run, P):
    run.rule("C04.post", "add_with_deps appends a statement only after the loop over "
             "its dependencies and after the executed/planned/batch membership exits",
             minimum=4)
    run.rule("C04.front", "update_plan puts the new batch where __call__ consumes "
             "next and records it in the id set", minimum=2)
    run.rule("C04.mark", "__call__: pop paired with id-set removal; executed mark "
             "precedes guard evaluation and dispatch; false guard skips only the "
             "dispatch", minimum=4)
    run.rule("C04.dispatch", "exactly one dispatch through stmt.exec_method per "
             "loop iteration", minimum=1)
    run.rule("C04.reset", "reset() clears every container created in __init__; in "
             "run_single_step it dominates update_plan, whose roots are the phase's "
             "depends_on", minimum=5)
    run.rule("C04.sinks", "ExecutionPhase.depends_on is all ids minus the union of "
             "all depends_on", minimum=2)
    run.rule("C04.attrs", "every statement attribute read by the controller and by "
             "evaluate_condition is defined for every statement kind", minimum=20)

    run.rule("C04.guardeval", "evaluate_condition evaluates the statement's guard "
             "afresh on every call", minimum=1)
    run.do(_guardeval, run, P)
    C = P.cls(EC)
    run.do(_post, run, P, C)
    run.do(_requests_once, run, P, C)
    run.do(_skipsets, run, P, C)
    run.do(_front, run, P, C)
    run.do(_scope, run, P, C)
    run.do(_mark, run, P, C)
    run.do(_reset, run, P, C)
    run.do(_sinks, run, P)
    run.do(_attrs, run, P, C)


def _guardeval(run, P):
    f = sm.interp_method(P, "evaluate_condition")
    if f is None:
        raise AnalysisError("NumpyInterpreter.evaluate_condition not found")
    st = f.params[1]
    rets = [r for r in ast.walk(f.node) if isinstance(r, ast.Return)]
    aliases = {f"{st}.condition"}
    for s_ in func_body_stmts(f.node):
        if isinstance(s_, ast.Assign) and norm(s_.value) == f"{st}.condition":
            aliases |= {t.id for t in s_.targets if isinstance(t, ast.Name)}
    ok = bool(rets)
    from .util import path_conditions

    def is_direct(v):
        return isinstance(v, ast.Call) and dotted(v.func) in ("self.eval_mapper", "self.eval_mapper.rec") \
            and bool(v.args) and norm(v.args[0]) in aliases
    for r in rets:
        v = r.value
        direct = is_direct(v)
        if not direct and isinstance(v, ast.Name):
            # a local that holds the freshly evaluated guard (looked at for a better message, say)
            srcs = [a_.value for a_ in ast.walk(f.node) if isinstance(a_, ast.Assign)
                    and any(isinstance(t_, ast.Name) and t_.id == v.id for t_ in a_.targets)]
            direct = len(srcs) == 1 and is_direct(srcs[0])
        if not direct and isinstance(v, ast.Constant) and v.value is True:
            # the guard that is the constant True needs no evaluation
            direct = any(pol and t in {f"{a} is True" for a in aliases} for t, pol in path_conditions(f.node, r))
        ok = ok and direct
    if not ok and rets:
        # a table of remembered guard values: sound exactly when a remembered value is
        # used only while the variables of the guard are unchanged.  A version that
        # consults the variable store (or whose assignment handlers empty the table)
        # may do that; whether it does is not read here.
        C = P.cls(sm.INTERP) if hasattr(sm, "INTERP") else f.cls
        units = [f] + [m for n_, m in C.methods.items()
                       if any(isinstance(c_, ast.Call) and dotted(c_.func) == f"self.{n_}"
                              for c_ in ast.walk(f.node))]
        tables = {x.attr for x in ast.walk(f.node) if isinstance(x, ast.Attribute)
                  and dotted(x.value) == "self" and x.attr not in ("eval_mapper", "context", "functions")
                  and x.attr not in C.methods}
        reads_store = any(isinstance(x, ast.Attribute) and dotted(x) == "self.context"
                          for u in units for x in ast.walk(u.node))
        invalidated = any(isinstance(c_, ast.Call) and isinstance(c_.func, ast.Attribute)
                          and c_.func.attr in ("clear", "pop") and dotted(c_.func.value) in {f"self.{t}" for t in tables}
                          for n_, m in C.methods.items() if n_.startswith("exec_")
                          for c_ in ast.walk(m.node))
        if tables and (reads_store or invalidated):
            raise AnalysisError("evaluate_condition keeps remembered guard values and checks them against "
                                "the variable store: whether the check is sufficient is not read")
    run.ob("C04.guardeval", f, rets[0] if rets else f.node, ok,
           construct="every return is self.eval_mapper(<stmt>.condition)",
           why="a guard value remembered from an earlier statement is stale when a "
               "statement in between changed a variable of the guard: a statement "
               "runs although its guard is false when it is visited")


def _requests_once(run, P, C):
    """What an exec method hands back as "execute these first" may be any iterable (a
    generator, map(), filter()): between the unpacking and update_plan it is walked at most
    once - or made a tuple / list first."""
    call = C.methods.get("__call__")
    if call is None:
        raise AnalysisError("ExecutionController.__call__ not found")
    ups = [x for x in ast.walk(call.node) if isinstance(x, ast.Call) and dotted(x.func) == "self.update_plan"
           and len(x.args) >= 2 and isinstance(x.args[1], ast.Name)]
    if not ups:
        raise AnalysisError("ExecutionController.__call__: update_plan(<phase>, <requests>) not found")
    v = ups[0].args[1].id
    units = [(call, v)]
    # a helper that receives the unpacked result and hands the requests back
    for x in ast.walk(call.node):
        if isinstance(x, ast.Assign) and any(v in {n_.id for n_ in ast.walk(t_) if isinstance(n_, ast.Name)}
                                             for t_ in x.targets) and isinstance(x.value, ast.Call):
            d = dotted(x.value.func) or ""
            if d.startswith("self.") and d[5:] in C.methods:
                h = C.methods[d[5:]]
                rets = [r.value for r in ast.walk(h.node) if isinstance(r, ast.Return)
                        and isinstance(r.value, ast.Tuple) and len(r.value.elts) == 2
                        and isinstance(r.value.elts[1], ast.Name)]
                for r in rets:
                    units.append((h, r.elts[1].id))
    n = 0
    for fn, name in units:
        walks, frozen = [], []
        for x in ast.walk(fn.node):
            if isinstance(x, (ast.For, ast.comprehension)) and isinstance(x.iter, ast.Name) and x.iter.id == name:
                walks.append(x)
            if isinstance(x, ast.Call) and isinstance(x.func, ast.Name) \
                    and x.func.id in ("sorted", "any", "all", "set", "frozenset", "len", "sum", "max", "min") \
                    and any(isinstance(a_, ast.Name) and a_.id == name for a_ in x.args):
                walks.append(x)
            if isinstance(x, ast.Assign) and any(isinstance(t_, ast.Name) and t_.id == name for t_ in x.targets) \
                    and isinstance(x.value, ast.Call) and dotted(x.value.func) in ("tuple", "list", "frozenset") \
                    and len(x.value.args) == 1 and dotted(x.value.args[0]) == name:
                frozen.append(x)
        n += 1
        first_walk = min((getattr(w_, "lineno", None) or w_.iter.lineno for w_ in walks), default=None)
        ok = not walks or any(fz.lineno < first_walk for fz in frozen)
        run.ob("C04.post", fn, walks[0] if walks and not isinstance(walks[0], ast.comprehension) else fn.node, ok,
               construct=f"{fn.name}: the requests ('{name}') are not walked before they reach update_plan "
                         f"(or are made a tuple first; walks: {len(walks)})",
               why="a generator is empty after the first walk: the check passes, update_plan gets "
                   "nothing, and the requested statement is not run before the ones already planned")
    if n == 0:
        raise AnalysisError("requests: nothing examined")


def _iterative_plan(run, P, up):
    """Depth-first planning with an explicit stack.  One way of getting it wrong is
    decided here: ids that are entered into the 'already taken care of' set when a whole
    batch of dependencies is pushed.  A dependency shared by two of them is then skipped
    under the second, which is finished - appended to the plan - before the shared one."""
    units = [up]          # ast.walk descends into the nested helpers
    whiles = [w for w in ast.walk(up.node) if isinstance(w, ast.While) and isinstance(w.test, ast.Name)]
    if not whiles:
        return
    stack = whiles[0].test.id
    # sets whose membership makes the walk skip an id
    skip_sets = set()
    for u in units:
        for t in ast.walk(u.node):
            if isinstance(t, ast.If) and isinstance(t.test, ast.Compare) and len(t.test.ops) == 1 \
                    and isinstance(t.test.ops[0], ast.In) and isinstance(t.test.comparators[0], ast.Name) \
                    and t.body and isinstance(t.body[-1], (ast.Continue, ast.Return)):
                skip_sets.add(t.test.comparators[0].id)
    n = 0
    for u in units:
        for lp in ast.walk(u.node):
            if not isinstance(lp, ast.For) or not isinstance(lp.target, ast.Name):
                continue
            v = lp.target.id
            pushes = [x for x in ast.walk(lp) if isinstance(x, ast.Call) and dotted(x.func) == f"{stack}.append"
                      and any(isinstance(y, ast.Name) and y.id == v for y in ast.walk(x))]
            marks = [x for x in ast.walk(lp) if isinstance(x, ast.Call) and isinstance(x.func, ast.Attribute)
                     and x.func.attr == "add" and isinstance(x.func.value, ast.Name)
                     and x.func.value.id in skip_sets and x.args and dotted(x.args[0]) == v]
            if pushes:
                n += 1
                run.ob("C04.post", u, marks[0] if marks else lp, not marks,
                       construct=f"ids are not entered into the skip set "
                                 f"({sorted(skip_sets)}) while a batch of them is pushed on '{stack}'",
                       why="a dependency that two statements of the batch share is skipped under the "
                           "one that is popped first; that one is appended to the plan before the "
                           "shared dependency: it runs before what it depends on")


def _post(run, P, C):
    up = C.methods.get("update_plan")
    if up is None:
        raise AnalysisError("ExecutionController.update_plan not found")
    # the recursive helper: nested function that calls itself
    helper = None
    for f in up.nested.values():
        if any(isinstance(x, ast.Call) and isinstance(x.func, ast.Name)
               and x.func.id == f.name for x in ast.walk(f.node)):
            helper = f
    if helper is None:
        run.do(_iterative_plan, run, P, up)
        raise AnalysisError("update_plan: recursive insertion helper not found")
    g = CFG(helper.node)
    appends = g.find(lambda n, fr: n.kind == "stmt" and any(
        isinstance(x, ast.Call) and isinstance(x.func, ast.Attribute)
        and x.func.attr in ("append", "insert", "appendleft") for x in walk_fragment(fr[0])))
    if len(appends) != 1:
        raise AnalysisError(f"{helper.fq}: expected exactly one plan append, found {len(appends)}")
    app = appends[0]
    batch = dotted(app.ast.value.func.value) if isinstance(app.ast, ast.Expr) else None
    # the dependency loop
    loops = [n for n in g.nodes if n.kind == "for" and "depends_on" in ast.unparse(n.ast.iter)
             and any(isinstance(x, ast.Call) and isinstance(x.func, ast.Name)
                     and x.func.id == helper.name for b in n.ast.body for x in ast.walk(b))]
    if not loops:
        raise AnalysisError(f"{helper.fq}: loop over depends_on with recursive call not found")
    loop = loops[0]
    in_body = any(x is app.ast for b in loop.ast.body for x in ast.walk(b))
    bad = g.always_preceded([app], [loop])
    run.ob("C04.post", helper, app.ast, not bad and not in_body,
           construct=f"{norm(app.ast)} after 'for ... in {norm(loop.ast.iter)}'",
           why="appending a statement before its dependencies have been inserted "
               "lets it run before them")
    # membership exits
    stmt_param = helper.params[0]
    wanted = {"executed": "self.executed_ids", "batch": batch}
    for label, cont in wanted.items():
        tests = []
        for n in g.nodes:
            if n.kind == "test" and isinstance(n.ast, ast.Compare) and len(n.ast.ops) == 1 \
                    and isinstance(n.ast.ops[0], ast.In) \
                    and dotted(n.ast.comparators[0]) == cont:
                # True branch must return
                ifnode = n.label
                if ifnode.body and isinstance(ifnode.body[-1], ast.Return):
                    tests.append(n)
        ok = bool(tests) and not g.always_preceded([loop], tests)
        run.ob("C04.post", helper, tests[0].ast if tests else helper.node, ok,
               construct=f"early exit when the statement is already {label} "
                         f"({cont}) before descending",
               why="without this exit a statement can be planned or executed twice "
                   "in one step")
    # a statement that is planned (later) and needed now is pulled forward
    ptests = [n for n in g.nodes if n.kind == "test" and isinstance(n.ast, ast.Compare)
              and len(n.ast.ops) == 1 and isinstance(n.ast.ops[0], ast.In)
              and dotted(n.ast.comparators[0]) == "self.plan_id_set"]
    ok = False
    why_not = "no test on self.plan_id_set"
    if ptests:
        ifnode = ptests[0].label
        key = norm(ptests[0].ast.left)
        body_src = [norm(s_) for s_ in ifnode.body]
        leaves = any(isinstance(x, (ast.Return, ast.Continue, ast.Break, ast.Raise))
                     for s_ in ifnode.body for x in ast.walk(s_))
        rm_plan = any(b in (f"self.plan.remove({key})",) for b in body_src)
        rm_set = any(b in (f"self.plan_id_set.remove({key})", f"self.plan_id_set.discard({key})")
                     for b in body_src)
        ok = not leaves and rm_plan and rm_set and not g.always_preceded([loop], ptests)
        why_not = ("returns without re-planning" if leaves else
                   "does not remove the id from both self.plan and self.plan_id_set")
    run.ob("C04.post", helper, ptests[0].ast if ptests else helper.node, ok,
           construct="a statement that is already planned is taken out of self.plan and "
                     "self.plan_id_set and re-planned with its dependencies"
                     + ("" if ok else f" ({why_not})"),
           why="'already planned, nothing to do' leaves a dependency of a requested "
               "statement behind it in the plan: the requested statement runs before "
               "its dependency (a -> b -> {out, x}, x requested while a runs: a, x, b, "
               "out); re-planning without removal runs it twice")


def _skipsets(run, P, C):
    """Whatever shape the traversal in update_plan has (recursive or with an
    explicit stack): a statement may be passed over only because it is *done*
    - executed, or already put on the new part of the plan - never because it
    was merely seen."""
    from ..engine.srcmodel import _always_leaves
    up = C.methods["update_plan"]
    units = [up] + list(up.nested.values())
    # the list that becomes the new front of the plan
    batch = None
    for s_ in ast.walk(up.node):
        if isinstance(s_, ast.Assign) and any(dotted(t) == "self.plan" for t in s_.targets) \
                and isinstance(s_.value, ast.BinOp):
            for side in (s_.value.left, s_.value.right):
                if isinstance(side, ast.Name):
                    batch = side.id
    if batch is None:
        raise AnalysisError("update_plan: the list joined to self.plan not found")
    emits = [x for u in units for x in ast.walk(u.node)
             if isinstance(x, ast.Call) and isinstance(x.func, ast.Attribute)
             and x.func.attr == "append" and dotted(x.func.value) == batch and x.args]
    if not emits:
        raise AnalysisError("update_plan: nothing is appended to the new part of the plan")

    def block_of(u, node):
        for n in ast.walk(u.node):
            for fld in ("body", "orelse", "finalbody"):
                blk = getattr(n, fld, None)
                if isinstance(blk, list) and any(any(y is node for y in ast.walk(b)) for b in blk
                                                 if not isinstance(b, (ast.If, ast.For, ast.While,
                                                                       ast.With, ast.Try,
                                                                       ast.FunctionDef))):
                    return blk
        return []

    def marks_current_only(name):
        """Every S.add(v): v is the statement being expanded (popped from the stack, the
        top of the stack, the parameter of the recursive helper) or one that is emitted in
        the same block - never the variable of a loop over dependencies / requests, which
        would mark a statement that is only being pushed."""
        adds = [(u, x) for u in units for x in ast.walk(u.node)
                if isinstance(x, ast.Call) and isinstance(x.func, ast.Attribute)
                and x.func.attr in ("add", "append", "update", "extend") and dotted(x.func.value) == name]
        if not adds:
            return False
        for u, x in adds:
            if x.func.attr in ("update", "extend") or not x.args or not isinstance(x.args[0], ast.Name):
                return False
            v = x.args[0].id
            blk = block_of(u, x)
            if any(any(e is y for y in ast.walk(b)) and norm(e.args[0]) == v for b in blk for e in emits):
                continue
            for lp in ast.walk(u.node):
                if isinstance(lp, (ast.For, ast.ListComp, ast.GeneratorExp, ast.SetComp)):
                    tg = [lp.target] if isinstance(lp, ast.For) else [g_.target for g_ in lp.generators]
                    if any(isinstance(y, ast.Name) and y.id == v for t_ in tg for y in ast.walk(t_)) \
                            and any(x is y for y in ast.walk(lp)):
                        return False
        return True

    n = 0
    for u in units:
        for t in ast.walk(u.node):
            if not isinstance(t, ast.If):
                continue
            test = t.test
            neg = False
            if isinstance(test, ast.UnaryOp) and isinstance(test.op, ast.Not):
                test, neg = test.operand, True
            if not (isinstance(test, ast.Compare) and len(test.ops) == 1
                    and isinstance(test.ops[0], (ast.In, ast.NotIn))):
                continue
            member = isinstance(test.ops[0], ast.In) != neg
            arm = t.body if member else t.orelse
            if not arm or not _always_leaves(arm):
                continue
            if any(any(e is y for y in ast.walk(b)) for b in arm for e in emits):
                continue                  # second visit: the statement is put on the plan here
            cont = dotted(test.comparators[0])
            ok = cont in ("self.executed_ids", batch) or (cont is not None and "." not in cont
                                                         and marks_current_only(cont))
            n += 1
            run.ob("C04.post", u, t, ok,
                   construct=f"a statement is passed over when it is in '{cont}', which holds "
                             f"only statements that are executed, on the new plan, or being "
                             f"expanded (never one that is merely waiting on the stack)",
                   why="a statement that was only pushed is not yet in front of what needs "
                       "it: skipping it there plans a statement before one of its "
                       "dependencies (n -> {t, s}, t -> s)")
    if n < 1:
        raise AnalysisError("update_plan: the done / already-planned exits were not found")
    # every id that enters the traversal is checked against the executed set
    cur_tests = [t for u in units for t in ast.walk(u.node) if isinstance(t, ast.Compare)
                 and len(t.ops) == 1 and isinstance(t.ops[0], (ast.In, ast.NotIn))
                 and dotted(t.comparators[0]) == "self.executed_ids"]
    stacks = {dotted(x.func.value) for u in units for x in ast.walk(u.node)
              if isinstance(x, ast.Call) and isinstance(x.func, ast.Attribute)
              and x.func.attr == "pop" and isinstance(x.func.value, ast.Name)
              and dotted(x.func.value) != batch}
    stacks |= {x.value.id for u in units for x in ast.walk(u.node)
               if isinstance(x, ast.Subscript) and isinstance(x.value, ast.Name)
               and isinstance(x.slice, ast.UnaryOp) and isinstance(x.ctx, ast.Load)}
    if stacks:
        for stk in sorted(stacks):
            # names bound from the stack
            curs = set()
            for u in units:
                for a_ in ast.walk(u.node):
                    if isinstance(a_, ast.Assign) and any(
                            (isinstance(y, ast.Call) and isinstance(y.func, ast.Attribute)
                             and y.func.attr == "pop" and dotted(y.func.value) == stk)
                            or (isinstance(y, ast.Subscript) and dotted(y.value) == stk)
                            for y in ast.walk(a_.value)):
                        for t_ in a_.targets:
                            curs |= {y.id for y in ast.walk(t_) if isinstance(y, ast.Name)}
            at_pop = any(isinstance(t.left, ast.Name) and t.left.id in curs for t in cur_tests)
            pushes = []
            for u in units:
                for x in ast.walk(u.node):
                    if isinstance(x, ast.Assign) and any(dotted(t_) == stk for t_ in x.targets):
                        pushes.append(x.value)
                    if isinstance(x, ast.Call) and isinstance(x.func, ast.Attribute) \
                            and dotted(x.func.value) == stk and x.func.attr in ("append", "extend"):
                        pushes.append(x)
            unfiltered = [p_ for p_ in pushes
                          if not any(any(t is y for y in ast.walk(p_)) for t in cur_tests)
                          and not (isinstance(p_, (ast.List, ast.Tuple)) and not p_.elts)
                          and not _repush(p_, curs)]
            # a push inside a loop / function whose variable is tested there counts as filtered
            still = []
            for p_ in unfiltered:
                names_ = {y.id for y in ast.walk(p_) if isinstance(y, ast.Name)}
                tested_here = any(isinstance(t.left, ast.Name) and t.left.id in names_ for t in cur_tests)
                if not tested_here:
                    still.append(p_)
            ok = at_pop or not still
            run.ob("C04.post", up, still[0] if still and not at_pop else up.node, ok,
                   construct=f"every id put on '{stk}' is checked against self.executed_ids "
                             f"(when taken off, or wherever it is put on)"
                             + (f" (not: {norm(still[0], 50)})" if not ok else ""),
                   why="a request that names a statement already executed in this step would "
                       "run it a second time (and a statement that requests itself would never "
                       "terminate)")


def _repush(p_, curs):
    """stack.append((cur, True)) - the statement being expanded goes back for emission."""
    if isinstance(p_, ast.Call) and p_.args:
        names_ = {y.id for y in ast.walk(p_.args[0]) if isinstance(y, ast.Name)}
        return bool(names_) and names_ <= curs
    return False


def _unused_marker():
    pass


def _front(run, P, C):
    up = C.methods["update_plan"]
    call = C.methods.get("__call__")
    if call is None:
        raise AnalysisError("ExecutionController.__call__ not found")
    # how does __call__ consume?
    aliases = {t.id for s_ in ast.walk(call.node) if isinstance(s_, ast.Assign)
               and dotted(s_.value) == "self.plan" for t in s_.targets if isinstance(t, ast.Name)}
    rebinds = [s_ for s_ in ast.walk(up.node) if isinstance(s_, ast.Assign)
               and any(dotted(t) == "self.plan" for t in s_.targets)]
    run.ob("C04.front", call, call.node, not (aliases and rebinds),
           construct="__call__ reads self.plan afresh on every iteration"
                     + (f" (holds it in {sorted(aliases)} while update_plan rebinds "
                        f"self.plan)" if aliases and rebinds else ""),
           why="update_plan replaces the list object; a loop that keeps draining the "
               "old object never sees the statements requested while the step runs")
    pops = [x for x in ast.walk(call.node) if isinstance(x, ast.Call)
            and isinstance(x.func, ast.Attribute) and x.func.attr in ("pop", "popleft")
            and (dotted(x.func.value) == "self.plan" or dotted(x.func.value) in aliases)]
    if len(pops) != 1:
        raise AnalysisError("__call__: expected exactly one pop from self.plan")
    p = pops[0]
    if p.func.attr == "popleft" or (p.args and isinstance(p.args[0], ast.Constant)
                                    and p.args[0].value == 0):
        consume = "front"
    elif not p.args or (isinstance(p.args[0], ast.Constant) and p.args[0].value == -1):
        consume = "back"
    else:
        raise AnalysisError(f"__call__: unrecognised pop {norm(p)}")

    # the batch variable: list assigned [] in update_plan and appended in helper
    placed = None
    site = None
    for s in func_body_stmts(up.node):
        if isinstance(s, ast.Assign) and any(dotted(t) == "self.plan" for t in s.targets):
            v = s.value
            site = s
            if isinstance(v, ast.BinOp) and isinstance(v.op, ast.Add):
                l, r = dotted(v.left), dotted(v.right)
                if r == "self.plan" and l and l != "self.plan":
                    placed = ("front", l)
                elif l == "self.plan" and r and r != "self.plan":
                    placed = ("back", r)
            elif isinstance(v, (ast.List, ast.Tuple)) and len(v.elts) == 2 \
                    and all(isinstance(e, ast.Starred) for e in v.elts):
                l, r = dotted(v.elts[0].value), dotted(v.elts[1].value)
                if r == "self.plan":
                    placed = ("front", l)
                elif l == "self.plan":
                    placed = ("back", r)
        elif isinstance(s, ast.Assign) and any(
                isinstance(t, ast.Subscript) and dotted(t.value) == "self.plan"
                and isinstance(t.slice, ast.Slice) for t in s.targets):
            t = s.targets[0]
            site = s
            if t.slice.lower is None and isinstance(t.slice.upper, ast.Constant) \
                    and t.slice.upper.value == 0:
                placed = ("front", dotted(s.value))
        elif isinstance(s, ast.Expr) and isinstance(s.value, ast.Call) \
                and isinstance(s.value.func, ast.Attribute) \
                and dotted(s.value.func.value) == "self.plan":
            site = s
            if s.value.func.attr == "extend":
                placed = ("back", dotted(s.value.args[0]) if s.value.args else None)
            elif s.value.func.attr == "extendleft":
                a = s.value.args[0] if s.value.args else None
                if isinstance(a, ast.Call) and dotted(a.func) == "reversed":
                    placed = ("front", dotted(a.args[0]))
                else:
                    placed = ("front-reversed", dotted(a) if a is not None else None)
    if site is None or placed is None:
        raise AnalysisError("update_plan: placement of the new batch not recognised")
    run.ob("C04.front", up, site, placed[0] == consume,
           construct=f"{norm(site)}  (new batch at {placed[0]}; __call__ consumes from {consume})",
           why="statements requested while a step is running (with their unvisited "
               "dependencies) must run before anything already planned")
    batch = placed[1]
    upd = [x for x in ast.walk(up.node) if isinstance(x, ast.Call)
           and isinstance(x.func, ast.Attribute) and x.func.attr in ("update", "__ior__")
           and dotted(x.func.value) == "self.plan_id_set"
           and x.args and dotted(x.args[0]) == batch]
    aug = [s for s in func_body_stmts(up.node) if isinstance(s, ast.AugAssign)
           and dotted(s.target) == "self.plan_id_set" and isinstance(s.op, ast.BitOr)]
    run.ob("C04.front", up, upd[0] if upd else up.node, bool(upd or aug),
           construct=f"self.plan_id_set absorbs the batch '{batch}'",
           why="a planned statement missing from the id set is planned a second time")


def _scope(run, P, C):
    """Statement ids are resolved in the table of the phase being run."""
    for mname in ("update_plan", "__call__"):
        m = C.methods[mname]
        ph = m.params[1]
        tables = {}
        for x in ast.walk(m.node):
            if isinstance(x, ast.Assign) and len(x.targets) == 1 and isinstance(x.targets[0], ast.Name):
                tables[x.targets[0].id] = x.value
        lookups = []
        for x in ast.walk(m.node):
            if isinstance(x, ast.Subscript) and isinstance(x.ctx, ast.Load):
                base = x.value
                src = tables.get(base.id) if isinstance(base, ast.Name) else base
                if src is not None and "id_to_stmt" in ast.unparse(src):
                    lookups.append((x, src))
        if not lookups:
            raise AnalysisError(f"ExecutionController.{mname}: statement lookup not found")
        for x, src in lookups:
            ok = norm(src) == f"{ph}.id_to_stmt"
            run.ob("C04.front", m, x, ok,
                   construct=f"{mname}: ids are resolved in {norm(src)} (the phase being run: "
                             f"{ph}.id_to_stmt)",
                   why="statement ids need only be unique within a phase: a table spanning "
                       "the whole code resolves a reused id to another phase's statement, "
                       "which is then executed in this phase's step")


def _mark(run, P, C):
    call = C.methods["__call__"]
    g = CFG(call.node)
    pop = _nodes_calling(g, "self.plan.pop") + _nodes_calling(g, "self.plan.popleft")
    for al in sorted({t.id for s_ in ast.walk(call.node) if isinstance(s_, ast.Assign)
                      and dotted(s_.value) == "self.plan" for t in s_.targets
                      if isinstance(t, ast.Name)}):
        pop += _nodes_calling(g, f"{al}.pop") + _nodes_calling(g, f"{al}.popleft")
    rem = _nodes_calling(g, "self.plan_id_set.remove") + _nodes_calling(g, "self.plan_id_set.discard")
    mark = _nodes_calling(g, "self.executed_ids.add")
    guard = [n for n in g.nodes if n.kind == "test" and any(
        isinstance(x, ast.Call) and isinstance(x.func, ast.Attribute)
        and x.func.attr == "evaluate_condition" for x in walk_fragment(n.ast))]
    disp = [n for n in g.nodes if n.kind == "stmt" and any(
        isinstance(x, ast.Call) and isinstance(x.func, ast.Call)
        and dotted(x.func.func) == "getattr" for x in walk_fragment(n.ast))]
    if not pop or not guard or not disp:
        raise AnalysisError("__call__: pop / evaluate_condition test / getattr dispatch not found")
    ok = bool(rem) and not g.always_preceded(rem, pop)
    run.ob("C04.mark", call, rem[0].ast if rem else call.node, ok,
           construct="self.plan_id_set.remove(...) paired with self.plan.pop(...)",
           why="an id left in the id set after its statement was consumed is never "
               "planned again in this step")
    ok = bool(mark) and not g.always_preceded(guard, mark)
    run.ob("C04.mark", call, mark[0].ast if mark else call.node, ok,
           construct="self.executed_ids.add(...) before target.evaluate_condition(...)",
           why="a statement whose guard is false must still count as visited, else "
               "a later request re-plans and executes it")
    ok = bool(mark) and not g.always_preceded(disp, mark)
    run.ob("C04.mark", call, mark[0].ast if mark else call.node, ok,
           construct="self.executed_ids.add(...) before dispatch",
           why="a re-entrant update_plan() from the running statement must see it "
               "as executed")
    # false guard -> continue (skips dispatch), true guard reaches dispatch
    gd = guard[0]
    test = gd.ast
    negated = isinstance(test, ast.UnaryOp) and isinstance(test.op, ast.Not)
    skip_label = "T" if negated else "F"
    run_label = "F" if negated else "T"
    skip_succ = [t for t, lab in g.succ[gd] if lab == skip_label]
    run_succ = [t for t, lab in g.succ[gd] if lab == run_label]
    head = g.node_of([n for n in ast.walk(call.node) if isinstance(n, ast.While)][0])
    skip_ok = bool(skip_succ) and all(
        disp[0] not in g.reachable([s], avoid=[head], include_start=True) for s in skip_succ)
    run_ok = bool(run_succ) and all(
        disp[0] in g.reachable([s], avoid=[head], include_start=True, follow_exc=False)
        for s in run_succ)
    run.ob("C04.mark", call, test, skip_ok and run_ok,
           construct=f"guard {norm(test)}: false skips dispatch, true reaches it",
           why="a statement whose guard is false has no effect; one whose guard "
               "holds is executed")

    # exactly one dispatch per iteration, by exec_method
    d = disp[0]
    calls = [x for x in walk_fragment(d.ast) if isinstance(x, ast.Call)
             and isinstance(x.func, ast.Call) and dotted(x.func.func) == "getattr"]
    by_exec = len(calls) == 1 and len(calls[0].func.args) == 2 \
        and isinstance(calls[0].func.args[1], ast.Attribute) \
        and calls[0].func.args[1].attr == "exec_method"
    inner_loops = [n for n in ast.walk(call.node) if isinstance(n, (ast.For, ast.While))]
    nested_in = sum(1 for l in inner_loops if any(x is d.ast for x in ast.walk(l)))
    run.ob("C04.dispatch", call, d.ast, len(disp) == 1 and by_exec and nested_in == 1,
           construct=norm(d.ast),
           why="the handler named by the statement's exec_method runs once per "
               "consumed statement")


def _reset(run, P, C):
    init = C.methods.get("__init__")
    reset = C.methods.get("reset")
    if init is None or reset is None:
        raise AnalysisError("ExecutionController.__init__/reset not found")
    # per-step state: attributes of the controller that update_plan / __call__
    # (and their nested helpers) change - in place or by rebinding
    _MUT = {"append", "add", "remove", "pop", "popleft", "update", "extend", "extendleft",
            "insert", "discard", "clear", "appendleft"}
    containers = []
    for mname in ("update_plan", "__call__"):
        meth = C.methods.get(mname)
        if meth is None:
            continue
        for x in ast.walk(meth.node):
            d = None
            if isinstance(x, ast.Call) and isinstance(x.func, ast.Attribute) and x.func.attr in _MUT:
                d = dotted(x.func.value)
            elif isinstance(x, (ast.Assign, ast.AugAssign)):
                for t in (x.targets if isinstance(x, ast.Assign) else [x.target]):
                    dd = dotted(t) or (dotted(t.value) if isinstance(t, ast.Subscript) else None)
                    if dd and dd.startswith("self.") and dd.count(".") == 1 and dd not in containers:
                        containers.append(dd)
            elif isinstance(x, ast.Delete):
                for t in x.targets:
                    if isinstance(t, ast.Subscript):
                        d = dotted(t.value)
            if d and d.startswith("self.") and d.count(".") == 1 and d not in containers:
                containers.append(d)
    containers.sort()
    if len(containers) < 3:
        raise AnalysisError(f"ExecutionController: per-step containers {containers}")
    fresh = set()
    for s in func_body_stmts(init.node):
        if isinstance(s, ast.Assign):
            v = s.value
            is_new = isinstance(v, (ast.List, ast.Set, ast.Dict, ast.ListComp, ast.SetComp, ast.DictComp)) \
                or (isinstance(v, ast.Call) and dotted(v.func) in ("set", "list", "dict", "deque"))
            for t in s.targets:
                if is_new and dotted(t):
                    fresh.add(dotted(t))
    for cont in containers:
        run.ob("C04.reset", init, init.node, cont in fresh,
               construct=f"{cont} is created per controller in __init__",
               why="a container defined on the class (or handed in un-copied) and changed "
                   "in place is shared by every controller in the process: a second "
                   "stepper's reset() wipes the bookkeeping of one that is suspended "
                   "in the middle of a step")
    for cont in containers:
        ok = False
        for s in func_body_stmts(reset.node):
            if isinstance(s, ast.Delete):
                for t in s.targets:
                    if isinstance(t, ast.Subscript) and dotted(t.value) == cont \
                            and isinstance(t.slice, ast.Slice) and t.slice.lower is None \
                            and t.slice.upper is None:
                        ok = True
            if isinstance(s, ast.Expr) and isinstance(s.value, ast.Call) \
                    and isinstance(s.value.func, ast.Attribute) \
                    and s.value.func.attr == "clear" and dotted(s.value.func.value) == cont:
                ok = True
            if isinstance(s, ast.Assign) and any(dotted(t) == cont for t in s.targets):
                v = s.value
                if (isinstance(v, (ast.List, ast.Set, ast.Dict)) and not getattr(v, "elts", getattr(v, "keys", []))) \
                        or (isinstance(v, ast.Call) and dotted(v.func) in ("set", "list", "dict", "deque")
                            and not v.args):
                    ok = True
        run.ob("C04.reset", reset, reset.node, ok,
               construct=f"reset() clears {cont}",
               why="state left from a step that was cut short (failure, switch, "
                   "exception) makes later steps skip statements")
    rs = P.func("dagrt.exec_numpy.NumpyInterpreter.run_single_step")
    g = CFG(rs.node)
    r = _nodes_calling(g, "self.exec_controller.reset")
    u = _nodes_calling(g, "self.exec_controller.update_plan")
    if not u:
        raise AnalysisError("run_single_step: update_plan call not found")
    ok = bool(r) and not g.always_preceded(u, r)
    run.ob("C04.reset", rs, r[0].ast if r else rs.node, ok,
           construct="exec_controller.reset() dominates exec_controller.update_plan(...)",
           why="a plan abandoned by the previous step must not leak into this one")
    ucall = [x for x in walk_fragment(u[0].ast) if isinstance(x, ast.Call)
             and dotted(x.func) == "self.exec_controller.update_plan"][0]
    ok = len(ucall.args) == 2 and isinstance(ucall.args[1], ast.Attribute) \
        and ucall.args[1].attr == "depends_on" \
        and dotted(ucall.args[1].value) == dotted(ucall.args[0])
    run.ob("C04.reset", rs, ucall, ok, construct=norm(ucall),
           why="the roots of the plan must be the sinks of the phase being run, "
               "otherwise statements are left out")


def independent_fields(run, P, rule, class_fqs):
    """pytools' Record.copy(x=new) re-passes every *stored* field to the
    constructor: a stored field that was computed from another stored field
    keeps the value it had for the old one."""
    for fq in class_fqs:
        c = P.cls(fq)
        init = c.methods.get("__init__")
        if init is None:
            continue
        calls = [x for x in ast.walk(init.node) if isinstance(x, ast.Call) and (
            (isinstance(x.func, ast.Attribute) and x.func.attr == "__init__"))
            and any(k.arg for k in x.keywords)]
        if not calls:
            continue
        call = calls[0]
        stored = {k.arg for k in call.keywords if k.arg}
        # which parameters does each local depend on?
        deps = {p_: {p_} for p_ in init.params}
        changed = True
        while changed:
            changed = False
            for s_ in ast.walk(init.node):
                tg, val = [], None
                if isinstance(s_, ast.Assign):
                    tg, val = s_.targets, s_.value
                elif isinstance(s_, ast.AugAssign):
                    tg, val = [s_.target], s_.value
                elif isinstance(s_, ast.For):
                    tg, val = [s_.target], s_.iter
                elif isinstance(s_, ast.comprehension):
                    tg, val = [s_.target], s_.iter
                if val is None:
                    continue
                src = set()
                for y in ast.walk(val):
                    if isinstance(y, ast.Name) and y.id in deps:
                        src |= deps[y.id]
                for t in tg:
                    for y in ast.walk(t):
                        if isinstance(y, ast.Name):
                            old = deps.get(y.id, set())
                            if not src <= old:
                                deps[y.id] = old | src
                                changed = True
        bad = []
        for k in call.keywords:
            if not k.arg:
                continue
            used = set()
            for y in ast.walk(k.value):
                if isinstance(y, ast.Name) and y.id in deps:
                    used |= deps[y.id]
            other = (used & stored) - {k.arg}
            if other:
                bad.append((k, sorted(other)))
        run.ob(rule, init, bad[0][0].value if bad else call, not bad,
               construct=f"{c.name}: no stored field is computed from another stored field"
                         + (f" ('{bad[0][0].arg}' from {bad[0][1]})" if bad else
                            f" ({sorted(stored)})"),
               why="copy(statements=...) of such an object keeps what was derived from the old "
                   "statements: the roots of a copied phase are those of the original, new "
                   "statements are never visited and removed ones are looked up")


def _sinks(run, P):
    run.do(independent_fields, run, P, "C04.sinks",
           ["dagrt.language.ExecutionPhase", "dagrt.language.DAGCode"])
    f = P.func("dagrt.language.ExecutionPhase.depends_on")
    rets = [s for s in func_body_stmts(f.node) if isinstance(s, ast.Return)]
    if len(rets) != 1 or not isinstance(rets[0].value, ast.Name):
        raise AnalysisError("ExecutionPhase.depends_on: single 'return <name>' expected")
    r = rets[0].value.id
    init_ok = sub_ok = False
    init_node = sub_node = f.node
    for s in func_body_stmts(f.node):
        if isinstance(s, ast.Assign) and any(isinstance(t, ast.Name) and t.id == r
                                             for t in s.targets):
            v = s.value
            if isinstance(v, (ast.SetComp, ast.Call)):
                comp = v if isinstance(v, ast.SetComp) else (
                    v.args[0] if v.args and isinstance(v.args[0], (ast.GeneratorExp, ast.ListComp, ast.SetComp)) else None)
                if comp is not None and isinstance(comp.elt, ast.Attribute) \
                        and comp.elt.attr == "id" and len(comp.generators) == 1 \
                        and not comp.generators[0].ifs \
                        and dotted(comp.generators[0].iter) == "self.statements":
                    init_ok = True
                    init_node = s
        if isinstance(s, ast.For) and dotted(s.iter) == "self.statements" \
                and isinstance(s.target, ast.Name):
            v = s.target.id
            from .util import core
            sbody = core(s.body, lambda s_: r in {x.id for x in ast.walk(s_) if isinstance(x, ast.Name)})
            for b in sbody:
                if isinstance(b, ast.AugAssign) and isinstance(b.op, ast.Sub) \
                        and isinstance(b.target, ast.Name) and b.target.id == r \
                        and f"{v}.depends_on" in ast.unparse(b.value) and len(sbody) == 1:
                    sub_ok = True
                    sub_node = b
                if isinstance(b, ast.Expr) and isinstance(b.value, ast.Call) \
                        and dotted(b.value.func) == f"{r}.difference_update" \
                        and f"{v}.depends_on" in ast.unparse(b.value) and len(sbody) == 1:
                    sub_ok = True
                    sub_node = b
    run.ob("C04.sinks", f, init_node, init_ok,
           construct="result starts as {stmt.id for stmt in self.statements}",
           why="a statement missing from the candidate roots is never planned "
               "unless something depends on it")
    run.ob("C04.sinks", f, sub_node, sub_ok,
           construct="for every statement: result -= set(stmt.depends_on)",
           why="roots must be exactly the statements nothing depends on")


def guaranteed_fields(P, K):
    """Record fields that every instance of K carries: keywords passed
    explicitly to a base __init__ along the MRO."""
    fields = set()
    for c in P.mro(K):
        init = c.methods.get("__init__")
        if init is None:
            continue
        for x in ast.walk(init.node):
            if isinstance(x, ast.Call) and isinstance(x.func, ast.Attribute) \
                    and x.func.attr == "__init__":
                for kw in x.keywords:
                    if kw.arg:
                        fields.add(kw.arg)
    return fields


def _attrs(run, P, C):
    call = C.methods["__call__"]
    helper_funcs = [call] + list(C.methods["update_plan"].nested.values())
    interp_cond = sm.interp_method(P, "evaluate_condition")
    reads = []    # (func, attr node)
    # statements are the values of id_to_stmt[...] / the helper parameter
    for f in helper_funcs:
        stmt_vars = set()
        if f is not call:
            stmt_vars.add(f.params[0])
        tables = {"id_to_stmt"}
        for ff in [f] + ([f.parent] if f.parent is not None else []):
            for s in func_body_stmts(ff.node):
                if isinstance(s, ast.Assign) and isinstance(s.value, ast.Attribute) \
                        and s.value.attr == "id_to_stmt":
                    tables |= {t.id for t in s.targets if isinstance(t, ast.Name)}
        for s in func_body_stmts(f.node):
            if isinstance(s, ast.Assign) and isinstance(s.value, ast.Subscript) \
                    and dotted(s.value.value) in tables:
                for t in s.targets:
                    if isinstance(t, ast.Name):
                        stmt_vars.add(t.id)
        for x in ast.walk(f.node):
            if isinstance(x, ast.Attribute) and isinstance(x.value, ast.Name) \
                    and x.value.id in stmt_vars and isinstance(x.ctx, ast.Load):
                reads.append((f, x))
    if interp_cond is not None:
        sv = interp_cond.params[1]
        for x in ast.walk(interp_cond.node):
            if isinstance(x, ast.Attribute) and isinstance(x.value, ast.Name) \
                    and x.value.id == sv:
                reads.append((interp_cond, x))
    attrs = sorted({x.attr for _, x in reads})
    if not {"id", "depends_on", "exec_method", "condition"} <= set(attrs):
        raise AnalysisError(f"controller reads {attrs}; expected id, depends_on, "
                            f"exec_method, condition among them")
    for K in sm.statement_classes(P):
        fields = guaranteed_fields(P, K)
        for a in attrs:
            site = [(f, x) for f, x in reads if x.attr == a][0]
            ok = a in fields or P.lookup(K, a) is not None
            run.ob("C04.attrs", site[0], site[1], ok,
                   construct=f"{K.name}.{a}",
                   why=f"the controller reads stmt.{a} for every statement, but "
                       f"{K.name} defines no such field or attribute; a phase "
                       f"containing a {K.name} raises AttributeError in the interpreter")


def check(run, P):
    run.do(_check_main, run, P)
    from . import generic
    generic.lints(run, P, "C04")
