"""C05 - lowering a phase to structured code keeps order, guards and loops."""

from __future__ import annotations

import ast

from ..engine.cfg import CFG, walk_fragment
from ..engine.match import dotted, norm, func_body_stmts, kwarg
from ..engine.srcmodel import AnalysisError, Func
from ..engine.taint import Taint

EXPLANATION = (
    "Structural analysis of dagrt/codegen/dag_ast.py (create_ast_from_phase, "
    "loop_to_ast_node, conditional_to_ast) and of the generic walker "
    "StructuredCodeGenerator.lower_node. Decides: every iteration over the "
    "phase's unordered containers inside the lowering is sorted or "
    "order-insensitive (order-taint analysis: the result does not depend on "
    "how statements are stored); the topological sort appends an id only "
    "when it is popped in the finished state, pairs the append with leaving "
    "the visiting set, and pushes dependencies after marking; every ordered "
    "id is wrapped and appended once, the only skip being no-ops; the tree "
    "built for one statement is decided case by case by abstract interpretation over terms "
    "of the lowering helpers (guarded or not x 0/1/2 declared loops x "
    "assignment or other statement): one conditional around everything, the "
    "loops in declared order with their own variable and bounds, innermost "
    "the statement with guard and loops taken off and every other field "
    "unchanged - whatever style the helpers are written in (recursive, "
    "iterative, merged); the ordering does not recurse per dependency; the "
    "walker has a branch for "
    "every node class the simplifier can return and emits begin/body/end in "
    "order; the simplifier's own clauses (shared with C06). Does not decide: "
    "trace equivalence by execution.")

ASSUMPTIONS = [
    "constructor slot order of AST node classes is the order of their __init__ parameters",
    "the simplifier preserves which statements run (C06)",
]

MOD = "dagrt.codegen.dag_ast"


def _check_main(run, P):
    run.rule("C05.sorted", "no unordered iteration inside the lowering reaches its "
             "result order", minimum=2)
    run.rule("C05.topo", "topological sort: append only when popped finished, paired "
             "with leaving 'visiting'; dependencies pushed after marking", minimum=4)
    run.rule("C05.wrap", "every ordered id is wrapped and appended once; only no-ops "
             "are skipped", minimum=2)
    run.rule("C05.walker", "lower_node handles every node class the simplifier "
             "returns and emits begin/body/end in order", minimum=6)
    run.rule("C05.simplify", "the simplifier applied by the lowering keeps polarity, "
             "order and guards (shared with C06)", minimum=15)
    run.rule("C05.nulls", "the post-simplification pass removes an empty node from "
             "every child slot of every node class, so the walker never meets one",
             minimum=4)
    run.do(_nulls, run, P)
    run.do(_sorted, run, P)
    # the roots the walk starts from are computed order-independently (shared with C04.sinks)
    from . import c04 as _c04
    from .c01 import _alias as _al
    _al(run, "C04.sinks", "C05.sorted", lambda: _c04._sinks(run, P))
    run.do(_topo_wrap, run, P)
    run.do(_no_recursion, run, P)
    run.do(lowering_table, run, P, "C05.table")
    run.do(_walker, run, P)
    simplifier_clauses(run, P, "C05.simplify")


def simplifier_clauses(run, P, dst):
    """The clauses of C06 (the simplifier keeps what runs, and its order), evaluated
    under another property's rule id."""
    from . import c06
    srcs = ("C06.splice", "C06.pop", "C06.keep", "C06.neg", "C06.same", "C06.merge",
            "C06.const", "C06.post", "C06.pre", "C06.identity", "C06.flat", "C06.ends",
            "C06.handlers", "C06.lost")
    for src in srcs:
        run.rule_docs[src] = ""
        run.minimum[src] = 0
    n0 = len(run.obs)
    m = P.module(MOD)
    run.do(c06._splice_and_pop, run, P, m)
    run.do(c06._keep, run, P)
    run.do(c06._merge, run, P)
    run.do(c06._handlers, run, P)
    run.do(c06._lost, run, P)
    run.do(c06._identity, run, P)
    run.do(c06._flat, run, P)
    for o in run.obs[n0:]:
        o.rule = dst
    for src in list(run.rule_docs):
        if src.startswith("C06."):
            del run.rule_docs[src]
            del run.minimum[src]


def _nulls(run, P):
    """Child slots: constructor parameters of node classes that the identity
    mapper feeds with self.rec(...)."""
    IM = P.cls(f"{MOD}.ASTIdentityMapper")
    PM = P.cls(f"{MOD}.ASTPostSimplifyMapper")
    from .c06 import _slots
    for name, f in sorted(IM.methods.items()):
        if not name.startswith("map_"):
            continue
        clsname = name[4:]
        rec_slots = []
        for x in ast.walk(f.node):
            if isinstance(x, ast.Call) and dotted(x.func) == "self.rec" and x.args \
                    and isinstance(x.args[0], ast.Attribute):
                rec_slots.append(x.args[0].attr)
            if isinstance(x, (ast.ListComp, ast.GeneratorExp)) and isinstance(x.elt, ast.Call) \
                    and dotted(x.elt.func) == "self.rec":
                it = x.generators[0].iter
                if isinstance(it, ast.Attribute):
                    rec_slots.append(it.attr)
        node_slots = [sl for sl in rec_slots if sl not in ("condition", "lbound", "ubound")]
        if not node_slots:
            continue
        h = PM.methods.get(name)
        pre = P.cls(f"{MOD}.ASTPreSimplifyMapper").methods.get(name)
        if h is None and pre is not None:
            # the node class is rewritten away by the pre pass (IfThen -> IfThenElse)
            run.ob("C05.nulls", pre, pre.node, True,
                   construct=f"{clsname}: rewritten by the pre-simplification pass",
                   why="never reaches the post pass")
            continue
        if h is None and pre is None:
            PC = P.cls(f"{MOD}.ASTPreSimplifyMapper")
            if "__call__" in PC.methods and any(isinstance(x, (ast.While, ast.For))
                                                for x in ast.walk(PC.methods["__call__"].node)):
                # the pre pass walks the tree by itself: whether it still rewrites this node
                # class away is not read by this clause
                raise AnalysisError(f"{clsname}: no handler in the post pass, and the pre pass "
                                    f"re-implements its traversal; not decided")
        ok = h is not None
        tested = set()
        if ok:
            for x in ast.walk(h.node):
                if isinstance(x, ast.Call) and dotted(x.func) == "isinstance" and len(x.args) == 2 \
                        and "NullASTNode" in ast.unparse(x.args[1]):
                    tested.add(dotted(x.args[0]))
            # map slot -> local assigned from self.rec(expr.slot) / loop variable
            for sl in node_slots:
                locs = set()
                for s_ in ast.walk(h.node):
                    if isinstance(s_, ast.Assign) and isinstance(s_.value, ast.Call) \
                            and dotted(s_.value.func) == "self.rec" and s_.value.args:
                        a0 = s_.value.args[0]
                        if isinstance(a0, ast.Attribute) and a0.attr == sl:
                            locs |= {t.id for t in s_.targets if isinstance(t, ast.Name)}
                        if isinstance(a0, ast.Name):
                            # child = self.rec(child) inside `for child in expr.children`
                            for lp in ast.walk(h.node):
                                if isinstance(lp, ast.For) and isinstance(lp.iter, ast.Attribute) \
                                        and lp.iter.attr == sl and dotted(lp.target) == a0.id:
                                    locs |= {t.id for t in s_.targets if isinstance(t, ast.Name)}
                            # child = pending.pop() from a work list made from expr.<slot>
                            for pp in ast.walk(h.node):
                                if isinstance(pp, ast.Assign) and isinstance(pp.value, ast.Call) \
                                        and isinstance(pp.value.func, ast.Attribute) \
                                        and pp.value.func.attr in ("pop", "popleft") \
                                        and any(isinstance(t, ast.Name) and t.id == a0.id for t in pp.targets):
                                    wl = dotted(pp.value.func.value)
                                    if wl and any(isinstance(d_, ast.Assign) and any(
                                            isinstance(t, ast.Name) and t.id == wl for t in d_.targets)
                                            and any(isinstance(y, ast.Attribute) and y.attr == sl
                                                    for y in ast.walk(d_.value)) for d_ in ast.walk(h.node)):
                                        locs |= {t.id for t in s_.targets if isinstance(t, ast.Name)}
                # [c for c in map(self.rec, expr.<slot>) if not isinstance(c, NullASTNode)]
                for comp in ast.walk(h.node):
                    if isinstance(comp, (ast.ListComp, ast.GeneratorExp)) and len(comp.generators) == 1:
                        g_ = comp.generators[0]
                        it_ = g_.iter
                        over_rec = (isinstance(it_, ast.Call) and dotted(it_.func) == "map" and len(it_.args) == 2
                                    and dotted(it_.args[0]) == "self.rec"
                                    and isinstance(it_.args[1], ast.Attribute) and it_.args[1].attr == sl) or (
                            isinstance(it_, (ast.GeneratorExp, ast.ListComp))
                            and isinstance(it_.elt, ast.Call) and dotted(it_.elt.func) == "self.rec"
                            and isinstance(it_.generators[0].iter, ast.Attribute)
                            and it_.generators[0].iter.attr == sl)
                        if over_rec and isinstance(g_.target, ast.Name) and any(
                                isinstance(t_, ast.UnaryOp) and isinstance(t_.op, ast.Not)
                                and isinstance(t_.operand, ast.Call) and dotted(t_.operand.func) == "isinstance"
                                and dotted(t_.operand.args[0]) == g_.target.id
                                and "NullASTNode" in ast.unparse(t_.operand.args[1]) for t_ in g_.ifs):
                            locs.add(g_.target.id)
                            tested.add(g_.target.id)
                ok = ok and bool(locs & tested)
        run.ob("C05.nulls", h if h is not None else PM, h.node if h is not None else PM.node, ok,
               construct=f"{clsname}: post pass tests child slot(s) {node_slots} for NullASTNode",
               why=f"an empty node left in a {clsname} reaches the walker, which raises "
                   f"'Unrecognized node type' (e.g. a looped assignment whose guard is "
                   f"the constant False)")


def sort_wrappers(f):
    """nested helpers `def h(ids): return sorted(ids[, key=lambda e: (..., e)])`: a total
    order on the ids (the element itself breaks every tie)"""
    out = set()
    for name, g_ in f.nested.items():
        body = [s_ for s_ in func_body_stmts(g_.node)
                if not (isinstance(s_, ast.Expr) and isinstance(s_.value, ast.Constant))]
        if len(g_.params) != 1 or len(body) != 1 or not isinstance(body[0], ast.Return):
            continue
        v = body[0].value
        if not (isinstance(v, ast.Call) and dotted(v.func) == "sorted" and len(v.args) == 1
                and isinstance(v.args[0], ast.Name) and v.args[0].id == g_.params[0]):
            continue
        keys = [k for k in v.keywords if k.arg == "key"]
        if any(k.arg not in ("key",) for k in v.keywords):
            continue
        if keys:
            lam = keys[0].value
            if not (isinstance(lam, ast.Lambda) and len(lam.args.args) == 1
                    and isinstance(lam.body, ast.Tuple) and lam.body.elts
                    and isinstance(lam.body.elts[-1], ast.Name)
                    and lam.body.elts[-1].id == lam.args.args[0].arg):
                continue
        out.add(name)
    return out


class _Unfold(ast.NodeTransformer):
    def __init__(self, names, scopes=()):
        self.names = names
        self.scopes = scopes

    def visit_Call(self, node):
        self.generic_visit(node)
        if isinstance(node.func, ast.Name) and node.func.id == "sorted" and len(node.args) == 1 \
                and [k.arg for k in node.keywords] == ["key"]:
            from ..engine.taint import key_is_total
            if any(key_is_total(node, sc) for sc in self.scopes if sc is not None):
                # a key that tells any two ids apart: another total order, still an order
                return ast.copy_location(ast.Call(func=node.func, args=node.args, keywords=[]), node)
        if isinstance(node.func, ast.Name) and node.func.id in self.names and len(node.args) == 1:
            return ast.copy_location(ast.Call(func=ast.Name(id="sorted", ctx=ast.Load()),
                                              args=node.args, keywords=[]), node)
        return node


def unfold_sorts(f, node):
    """a copy of *node* in which calls of the sort wrappers of *f* read sorted(<arg>)"""
    import copy
    names = sort_wrappers(f)
    has_key = any(isinstance(x, ast.Call) and dotted(x.func) == "sorted" and x.keywords for x in ast.walk(node))
    if not names and not has_key:
        return node
    return ast.fix_missing_locations(
        _Unfold(names, (f.node, f.module.tree)).visit(copy.deepcopy(node)))


def _sorted(run, P):
    T = Taint(P, modules={MOD})
    T.run()
    f = P.func(f"{MOD}.create_ast_from_phase")
    n = 0
    for fn, node, what, sink in T.examined:
        if fn is f or fn.fq.startswith(f.fq):
            n += 1
            run.ob("C05.sorted", fn, node, not sink, construct=what,
                   why=f"the lowered order depends on how the phase's statements are "
                       f"stored / hashed ({sink})" if sink else
                       "order-insensitive use")
    for fd in T.findings:
        if fd.func is f and not any(fd.node is nd for _, nd, _, _ in T.examined):
            n += 1
            run.ob("C05.sorted", fd.func, fd.node, False,
                   construct=f"{fd.what} {fd.sink}", why="order-tainted value reaches the result")
    # the seeding and expansion of the stack must go through sorted()
    for x in ast.walk(f.node):
        if isinstance(x, ast.Call) and isinstance(x.func, ast.Attribute) \
                and x.func.attr == "extend" and isinstance(x.func.value, ast.Name) \
                and any(isinstance(w_, ast.While) and dotted(w_.test) == x.func.value.id
                        for w_ in ast.walk(f.node)):
            a = x.args[0]
            ok = isinstance(a, ast.Call) and (dotted(a.func) == "sorted" or dotted(a.func) in sort_wrappers(f))
            n += 1
            run.ob("C05.sorted", f, x, ok,
                   why="ids pushed in set order make the emitted statement order "
                       "depend on hash seed and on the stored order of the statements")
    if n == 0:
        raise AnalysisError("create_ast_from_phase: no iteration examined")


def _topo_wrap(run, P):
    from .util import find, first, has, nodoc
    f = P.func(f"{MOD}.create_ast_from_phase")
    g = CFG(f.node)
    # the work-list loop: `while <stack>:` whose body starts with `<node> = <stack>[-1]`
    w = None
    env = None
    for n in ast.walk(f.node):
        if isinstance(n, ast.While) and isinstance(n.test, ast.Name):
            nd, b = first("V_node = V_stack[-1]", n, {"V_stack": n.test.id})
            if nd is not None:
                w, env = n, b
    if w is None:
        raise AnalysisError("create_ast_from_phase: work-list loop not found")
    stack, node = env["V_stack"], env["V_node"]
    # the order list: appended with the node inside the loop
    apps = find("V_order.append(V_node)", w, env)
    if len(apps) != 1:
        raise AnalysisError("create_ast_from_phase: one <order>.append(<node>) expected")
    app_call, env = apps[0]
    order = env["V_order"]
    app_stmt = None
    for nn in g.nodes:
        if nn.kind == "stmt" and any(x is app_call for x in walk_fragment(nn.ast)):
            app_stmt = nn
    # sets: first-visit branch adds the node to two sets; the finished test uses both
    tests_enclosing = []
    for n in ast.walk(w):
        if isinstance(n, ast.If) and any(x is app_call for b_ in n.body for x in ast.walk(b_)):
            tests_enclosing.append(n.test)
    memberships = []
    for t in tests_enclosing:
        m_ = first("V_node in V_set", t, {"V_node": node})
        if m_[0] is not None and isinstance(t, ast.Compare):
            memberships.append(m_[1]["V_set"])
    ok = len(memberships) == 2 and len(set(memberships)) == 2
    run.ob("C05.topo", f, app_stmt.ast if app_stmt else w, ok,
           construct=f"{order}.append({node}) only when {node} is in both "
                     f"{sorted(memberships)} (popped in the finished state)",
           why="an id appended when first seen (before its dependencies were "
               "expanded) precedes its dependencies in the emitted code")
    visited = visiting = None
    if ok:
        # the outer test set is 'visited', the inner one 'visiting'
        outer_if = [n for n in w.body if isinstance(n, ast.If)]
        if outer_if:
            mo = first("V_node in V_set", outer_if[0].test, {"V_node": node})
            if mo[0] is not None:
                visited = mo[1]["V_set"]
                visiting = [x for x in memberships if x != visited]
                visiting = visiting[0] if visiting else None
    if visited is None or visiting is None:
        raise AnalysisError("create_ast_from_phase: visited / visiting sets not identified")
    rem = find(f"{visiting}.remove(V_node)", w, {"V_node": node}) + \
        find(f"{visiting}.discard(V_node)", w, {"V_node": node})
    paired = False
    if len(rem) == 1 and app_stmt is not None:
        for nn in g.nodes:
            if nn.kind == "stmt" and any(x is rem[0][0] for x in walk_fragment(nn.ast)):
                paired = _same_block(w, nn.ast, app_stmt.ast)
    run.ob("C05.topo", f, rem[0][0] if rem else w, paired,
           construct=f"{visiting}.remove({node}) paired with the append",
           why="left in 'visiting', the id is appended again each time it is popped")
    outer_if = [n for n in w.body if isinstance(n, ast.If)][0]
    exp = outer_if.orelse
    src = [ast.unparse(s) for s in exp]
    exp_ok = False
    try:
        i1 = src.index(f"{visited}.add({node})")
        i2 = src.index(f"{visiting}.add({node})")
        i3 = [i for i, s_ in enumerate(src) if s_.startswith(f"{stack}.extend(")][0]
        exp_ok = i1 < i3 and i2 < i3 and has(
            f"{stack}.extend(sorted(V_map[{node}].depends_on))", unfold_sorts(f, exp[i3]))
    except (ValueError, IndexError):
        exp_ok = False
    run.ob("C05.topo", f, w, exp_ok,
           construct="first visit: mark visited and visiting, then push the sorted dependencies",
           why="dependencies must be expanded exactly once, above the node on the stack")
    # the walk starts from every root of the phase
    ph = None
    for s_ in ast.walk(f.node):
        if isinstance(s_, ast.Assign) and len(s_.targets) == 1 and isinstance(s_.targets[0], ast.Name) \
                and isinstance(s_.value, ast.Subscript) and dotted(s_.value.value) == f"{f.params[0]}.phases":
            ph = s_.targets[0].id
    seeds = [x for x in ast.walk(f.node) if isinstance(x, ast.Call)
             and dotted(x.func) == f"{stack}.extend" and not any(
                 x is y for y in ast.walk(w))]
    seed_ok = ph is not None and len(seeds) == 1 and seeds[0].args \
        and norm(unfold_sorts(f, seeds[0].args[0])) in (f"sorted({ph}.depends_on)", f"natsorted({ph}.depends_on)")
    run.ob("C05.topo", f, seeds[0] if seeds else f.node, seed_ok,
           construct=f"the stack is seeded with sorted(<phase>.depends_on): every root, unfiltered"
                     + (f" (found: {norm(seeds[0].args[0], 80)})" if seeds and seeds[0].args and not seed_ok else ""),
           why="a root that is left out (a no-op that only groups other statements, say) "
               "takes everything reachable only through it out of the generated code")
    pop_ok = any(ast.unparse(s_) == f"{stack}.pop()" for s_ in outer_if.body)
    run.ob("C05.topo", f, w, pop_ok,
           construct="a visited id is popped on every path",
           why="termination")
    # wrap loop
    loops = [n for n in f.node.body if isinstance(n, ast.For) and dotted(n.iter) == order]
    if len(loops) != 1:
        raise AnalysisError("create_ast_from_phase: loop over the topological order not found")
    lp = loops[0]
    skips = [n for n in ast.walk(lp) if isinstance(n, (ast.Continue, ast.Break))]
    ok = True
    for s_ in skips:
        par = None
        for n in ast.walk(lp):
            if isinstance(n, ast.If) and any(b_ is s_ for b_ in n.body):
                par = n
        ok = ok and par is not None and has("isinstance(V_s, Nop)", par.test) \
            and isinstance(par.test, ast.Call)
    run.ob("C05.wrap", f, skips[0] if skips else lp, ok and len(skips) <= 1,
           construct="the only skip is 'if isinstance(<statement>, Nop): continue'",
           why="any other skip drops a statement from the generated code")
    appends = [s_ for s_ in lp.body if first("V_blk.append(loop_to_ast_node(V_s))", s_)[0] is not None]
    last = appends[-1] if appends else lp.body[-1]
    m_ = first("V_blk.append(loop_to_ast_node(V_s))", last)
    ok = m_[0] is not None and isinstance(lp.target, ast.Name) and has(
        f"V_s = V_map[{lp.target.id}]", lp, {"V_s": m_[1]["V_s"]} if m_[1] else None)
    run.ob("C05.wrap", f, last, ok,
           construct=norm(last),
           why="each ordered statement is wrapped (loops, guard) and appended once, in order")
    rets = [s_ for s_ in f.node.body if isinstance(s_, ast.Return)]
    ok = False
    if len(rets) == 1 and m_[1] is not None:
        # simplify_ast(Block(*<block>), <whatever else the simplifier is given>)
        for x in ast.walk(rets[0]):
            if isinstance(x, ast.Call) and dotted(x.func) == "simplify_ast" and x.args \
                    and has("Block(*V_blk)", x.args[0], {"V_blk": m_[1]["V_blk"]}):
                ok = True
    run.ob("C05.wrap", f, rets[0] if rets else f.node, ok,
           construct=norm(rets[0]) if rets else "?",
           why="children in traversal order")


def _same_block(root, a, b):
    for n in ast.walk(root):
        for fld in ("body", "orelse"):
            blk = getattr(n, fld, None)
            if isinstance(blk, list) and any(x is a for x in blk) and any(x is b for x in blk):
                return True
    return False


def ast_den(P, t):
    """Denotation of a term that stands for an AST built from dag_ast's node
    constructors: [(guards, loops, leaf statement term)] in execution order; a
    guard is a condition term or ("not", term); None if the term is no AST."""
    from ..engine import casetable as se
    from .c06 import _slots
    slots = {c: _slots(P, c) for c in ("ForLoop", "IfThenElse", "IfThen", "StatementWrapper")}

    def walk(t, guards, loops):
        if t[0] != "call" or t[1][0] != "name":
            return None
        cname = t[1][1].split(".")[-1]
        if cname == "NullASTNode":
            return []
        if cname == "Block":
            out = []
            for x in t[2]:
                r = walk(x, guards, loops)
                if r is None:
                    return None
                out += r
            return out
        if cname not in slots:
            return None
        d = dict(zip(slots[cname], t[2]))
        d.update(dict(t[3]))
        if cname == "StatementWrapper":
            return [(guards, loops, d.get("statement"))]
        if cname == "ForLoop":
            return walk(d.get("body", se.NONE), guards,
                        loops + (("tuple", (d.get("loop_var_name"), d.get("lbound"), d.get("ubound"))),))
        c = d.get("condition")
        a = walk(d.get("then", se.NONE), guards + ((c, len(loops)),), loops)
        b = walk(d["else_"], guards + ((("not", c), len(loops)),), loops) if "else_" in d else []
        if a is None or b is None:
            return None
        return a + b

    return walk(t, (), ())


def lowering_table(run, P, rule):
    """What create_ast_from_phase builds for one statement, case by case
    (abstract interpretation of the lowering helpers): guard or none x 0, 1, 2
    declared loops x assignment or other statement."""
    from ..engine import casetable as se
    from .c06 import _slots
    if rule not in run.rule_docs:
        run.rule(rule, "lowering of one statement, case by case (abstract interpretation over terms): the "
                 "guard, if any, is one conditional around everything; inside it the loops in "
                 "declared order, first outermost, each with its own variable and bounds; "
                 "innermost the statement itself with its guard and loops taken off", minimum=8)
    f = P.func(f"{MOD}.create_ast_from_phase")
    entry = None
    for x in ast.walk(f.node):
        if isinstance(x, ast.Call) and isinstance(x.func, ast.Attribute) and x.func.attr == "append" \
                and x.args and isinstance(x.args[0], ast.Call) and isinstance(x.args[0].func, ast.Name):
            t = P.resolve_name(f, x.args[0].func.id)
            if isinstance(t, Func) and "ast" in t.name:
                entry = t
    if entry is None:
        raise AnalysisError("create_ast_from_phase: the per-statement lowering call not found")
    ev = se.Evaluator(P)
    slots = {c: _slots(P, c) for c in ("ForLoop", "IfThenElse", "IfThen", "StatementWrapper", "Block")}

    def ctor(t):
        if t[0] == "call" and t[1][0] == "name":
            cname = t[1][1].split(".")[-1]
            if cname == "NullASTNode":
                return cname, {}
            if cname in slots:
                d = dict(zip(slots[cname], t[2]))
                d.update(dict(t[3]))
                return cname, d
        return None, None

    def tree(t):
        c, d = ctor(t)
        if c == "NullASTNode":
            return ("null",)
        if c == "StatementWrapper":
            return ("leaf", d.get("statement"))
        if c == "ForLoop":
            return ("for", d.get("loop_var_name"), d.get("lbound"), d.get("ubound"), tree(d.get("body", se.NONE)))
        if c in ("IfThenElse", "IfThen"):
            e = tree(d["else_"]) if "else_" in d else ("null",)
            return ("if", d.get("condition"), tree(d.get("then", se.NONE)), e)
        return ("?", se.show(t)[:60])

    COND = ("obj", "guard")
    L = [("tuple", (("obj", f"var{i}"), ("obj", f"lower{i}"), ("obj", f"upper{i}"))) for i in (1, 2)]
    cases = []
    for cond in (("const", True), COND):
        for nl in (0, 1, 2):
            cases.append(("Assign", cond, tuple(L[:nl])))
        cases.append(("other", cond, None))
    for kind, cond, loops in cases:
        fields = {"condition": cond, "id": ("obj", "id"), "depends_on": ("obj", "deps"), "@strict": ("const", True)}
        if kind == "Assign":
            fields.update(loops=("tuple", loops), lhs=("obj", "lhs"), rhs=("obj", "rhs"),
                          **{"@classes": ("tuple", (("name", "Assign"), ("name", "Statement")))})
        else:
            fields.update(**{"@classes": ("tuple", (("name", "YieldState"), ("name", "Statement")))})
        st = se.rec("statement", **fields)
        outs = ev.outcomes(entry, {entry.params[0]: st})
        case = f"{kind}, {'guarded' if cond == COND else 'unguarded'}" + (
            f", {len(loops)} loop(s)" if loops is not None else "")
        bad = None
        for (k, val), facts in outs:
            if k != "return":
                bad = f"raises {val}"
                break
            t = tree(val)
            guards = []
            while t[0] == "if":
                if t[3] != ("null",):
                    bad = "the conditional has a non-empty else part"
                guards.append(t[1])
                t = t[2]
            got_loops = []
            while t[0] == "for":
                got_loops.append(("tuple", (t[1], t[2], t[3])))
                t = t[4]
            if bad is None and t[0] == "if":
                bad = "a conditional inside the loop nest (the guard is re-tested in every iteration)"
            if bad is None and t[0] != "leaf":
                bad = f"innermost node is {t}"
            if bad is None:
                leaf = t[1]
                want_guards = [COND] if cond == COND else []
                if guards != want_guards:
                    bad = f"guards {[se.show(g_) for g_ in guards]}, expected {[se.show(g_) for g_ in want_guards]}"
                elif tuple(got_loops) != tuple(loops or ()):
                    bad = "loops " + ", ".join(se.show(x) for x in got_loops) + "; declared " + \
                        ", ".join(se.show(x) for x in (loops or ()))
                elif leaf is None or leaf[0] != "rec" or leaf[1] != "statement":
                    bad = f"the leaf wraps {se.show(leaf) if leaf else '?'}"
                else:
                    lc = se.rec_get(leaf, "condition")
                    ll = se.rec_get(leaf, "loops")
                    if cond == COND and lc != ("const", True):
                        bad = "the wrapped statement keeps its guard although the guard is tested outside"
                    elif loops and ll != ("tuple", ()):
                        bad = "the wrapped statement keeps its loops although the loop nodes were built"
                    else:
                        for fld in ("id", "depends_on", "lhs", "rhs"):
                            if se.rec_get(leaf, fld) != fields.get(fld):
                                bad = f"field '{fld}' of the wrapped statement changed"
            if bad:
                break
        run.ob(rule, entry, entry.node, bad is None,
               construct=f"{entry.name}: {case}" + (f": {bad}" if bad else ""),
               why="the generators emit exactly this tree: a guard inside the nest is re-tested "
                   "(and the bounds evaluated) although it is false, loops in another order read "
                   "a bound before its variable exists, a leaf that keeps its guard or loops is "
                   "guarded / looped twice by the passes that follow")


def _no_recursion(run, P):
    """The ordering of a phase keeps its own stack: the interpreter depth of the
    lowering does not grow with the length of dependency chains."""
    f = P.func(f"{MOD}.create_ast_from_phase")
    rec = []
    for g_ in [f] + list(f.nested.values()):
        for x in ast.walk(g_.node):
            if isinstance(x, ast.Call) and isinstance(x.func, ast.Name) and x.func.id == g_.name \
                    and g_ is not f:
                rec.append((g_, x))
            if isinstance(x, ast.Call) and dotted(x.func) == "create_ast_from_phase":
                rec.append((g_, x))
    run.ob("C05.topo", rec[0][0] if rec else f, rec[0][1] if rec else f.node, not rec,
           construct="create_ast_from_phase orders the statements without recursing per dependency"
                     + (f" (recursive call {norm(rec[0][1], 40)})" if rec else ""),
           why="a phase whose statements form a chain of a thousand dependencies (one variable "
               "updated a thousand times) is well-formed; a traversal that recurses once per "
               "link ends in RecursionError instead of a program")



def _walker(run, P):
    f = P.func("dagrt.codegen.codegen_base.StructuredCodeGenerator.lower_node")
    from .util import core
    uses_self = lambda s_: any(isinstance(x, ast.Name) and x.id == "self" for x in ast.walk(s_))
    from .util import path_conditions
    branches = {}
    param = f.params[1]
    cands = [s_ for s_ in ast.walk(f.node) if isinstance(s_, (ast.Expr, ast.For, ast.Assign, ast.Raise))]
    placed = []
    for s_ in sorted(cands, key=lambda x: (x.lineno, x.col_offset)):
        if any(any(y is s_ for y in ast.walk(p_)) for p_ in placed if p_ is not s_):
            continue            # nested in a statement already placed
        pc = path_conditions(f.node, s_)
        pos = [t for t, v in pc if v and t.startswith(f"isinstance({param}, ")]
        if len(pos) == 1:
            cls_ = pos[0][len(f"isinstance({param}, "):-1]
            branches.setdefault(cls_, []).append(s_)
            placed.append(s_)
    expected = {
        "StatementWrapper": ["self.lower_inst(node.statement)"],
        "IfThen": ["self.emit_if_begin(node.condition)", "self.lower_node(node.then)",
                   "self.emit_if_end()"],
        "IfThenElse": ["self.emit_if_begin(node.condition)", "self.lower_node(node.then)",
                       "self.emit_else_begin()", "self.lower_node(node.else_)",
                       "self.emit_if_end()"],
        "ForLoop": ["self.emit_for_begin(node.loop_var_name, node.lbound, node.ubound)",
                    "self.lower_node(node.body)", "self.emit_for_end(node.loop_var_name)"],
    }

    def show(s_):
        # the walked node is written 'node' whatever the parameter is called
        t = ast.parse(ast.unparse(s_)).body[0]
        for x in ast.walk(t):
            if isinstance(x, ast.Name) and x.id == param:
                x.id = "node"
            elif isinstance(x, ast.Name) and x.id == "node":
                x.id = "node_"
        return ast.unparse(t)

    for cls, seq in expected.items():
        body = branches.get(cls)
        got = [show(s) for s in core(body, uses_self)] if body else None
        run.ob("C05.walker", f, body[0] if body else f.node, got == seq,
               construct=f"{cls}: {got}",
               why=f"emission order for {cls} must be {seq}")
    body = branches.get("Block")
    ok = False
    body = core(body, uses_self) if body else body
    if body and len(body) == 1 and isinstance(body[0], ast.For):
        lp = body[0]
        lb = core(lp.body, uses_self)
        ok = dotted(lp.iter) == f"{param}.children" and len(lb) == 1 \
            and ast.unparse(lb[0]) == f"self.lower_node({lp.target.id})"
    run.ob("C05.walker", f, body[0] if body else f.node, ok,
           construct="Block: children lowered in tuple order",
           why="statement order")
    # every node class except NullASTNode has a branch
    classes = {c.name for c in P.subclasses(P.cls(f"{MOD}.ASTNode"), modules={MOD})}
    missing = sorted(classes - set(branches) - {"NullASTNode"})
    run.ob("C05.walker", f, f.node, not missing,
           construct=f"branches for {sorted(branches)}; missing {missing}",
           why="a node class without a branch raises 'Unrecognized node type'")
    la = P.func("dagrt.codegen.codegen_base.StructuredCodeGenerator.lower_ast")
    from .util import src_of
    src = src_of(core(la.node.body, uses_self))
    run.ob("C05.walker", la, la.node, src == [f"self.lower_node({la.arg(0)})", "self.emit_return()"],
           construct=f"lower_ast: {src}",
           why="the phase body is followed by the return/exit emission")


def check(run, P):
    run.do(_check_main, run, P)
    from . import generic
    generic.lints(run, P, "C05")
