"""Finite-domain abstract interpreter for small dispatch functions such as
``dagrt.data.unify``.

Abstract values are tuples ``(ClassName, field values...)`` or ``("None",)``.
The interpreter understands: if/elif/else, return, raise, assert, expression
statements (docstrings), and the expression forms listed in ``_eval``.
Anything else raises AnalysisError (exit 2) -- never a verdict.
"""

from __future__ import annotations

import ast

from .srcmodel import AnalysisError


class Fail(Exception):
    """The interpreted function raised (raise / failed assert)."""
    def __init__(self, kind, node):
        self.kind = kind
        self.node = node


class _Return(Exception):
    def __init__(self, value):
        self.value = value


NONE = ("None",)


class Domain:
    """Kind classes with their constructor fields, read from source."""

    def __init__(self, classes):
        # classes: {name: [field names]} ; bases: {name: set(ancestor names)}
        self.classes = classes
        self.ancestors = {}

    def values(self):
        out = [NONE]
        for name, fields in self.classes.items():
            if not fields:
                out.append((name,))
            elif fields == ["is_real_valued"]:
                out.append((name, True))
                out.append((name, False))
            elif fields == ["identifier"]:
                out.append((name, "id1"))
                out.append((name, "id2"))
            else:
                raise AnalysisError(f"kind class {name} has unsupported fields {fields}")
        return out

    def isinstance(self, v, cname):
        if v == NONE:
            return cname == "NoneType"
        return v[0] == cname or cname in self.ancestors.get(v[0], ())

    def getattr(self, v, attr, node):
        if v == NONE:
            raise Fail("AttributeError", node)
        fields = self.classes.get(v[0])
        if fields is None or attr not in fields:
            raise Fail("AttributeError", node)
        return v[1 + fields.index(attr)]

    def construct(self, cname, args, kwargs, node):
        fields = self.classes[cname]
        vals = list(args)
        for f in fields[len(vals):]:
            if f in kwargs:
                vals.append(kwargs[f])
            else:
                raise AnalysisError(f"constructor {cname}(...) misses field {f}")
        if len(vals) != len(fields):
            raise AnalysisError(f"constructor {cname}: arity")
        return (cname,) + tuple(vals)


class Interp:
    def __init__(self, func_node, domain: Domain):
        self.fn = func_node
        self.dom = domain
        self.params = [a.arg for a in func_node.args.args]

    def call(self, *vals):
        env = dict(zip(self.params, vals))
        try:
            self._block(self.fn.body, env)
        except _Return as r:
            return r.value
        # fell off the end
        return NONE

    def _block(self, stmts, env):
        for s in stmts:
            self._stmt(s, env)

    def _stmt(self, s, env):
        if isinstance(s, ast.If):
            if self._truth(self._eval(s.test, env), s.test):
                self._block(s.body, env)
            else:
                self._block(s.orelse, env)
        elif isinstance(s, ast.Return):
            raise _Return(NONE if s.value is None else self._eval(s.value, env))
        elif isinstance(s, ast.Raise):
            kind = "Exception"
            if s.exc is not None:
                c = s.exc.func if isinstance(s.exc, ast.Call) else s.exc
                kind = ast.unparse(c)
            raise Fail(kind, s)
        elif isinstance(s, ast.Assert):
            if not self._truth(self._eval(s.test, env), s.test):
                raise Fail("AssertionError", s)
        elif isinstance(s, ast.Expr) and isinstance(s.value, ast.Constant):
            pass
        elif isinstance(s, ast.Assign) and len(s.targets) == 1 \
                and isinstance(s.targets[0], ast.Name):
            env[s.targets[0].id] = self._eval(s.value, env)
        elif isinstance(s, ast.Pass):
            pass
        else:
            raise AnalysisError(
                f"abstract interpreter: unsupported statement at line "
                f"{s.lineno}: {ast.unparse(s).splitlines()[0]}")

    def _truth(self, v, node):
        if isinstance(v, bool):
            return v
        raise AnalysisError(
            f"abstract interpreter: non-boolean condition at line {node.lineno}: "
            f"{ast.unparse(node)}")

    def _eval(self, e, env):
        if isinstance(e, ast.Name):
            if e.id in env:
                return env[e.id]
            if e.id in ("True", "False"):
                return e.id == "True"
            raise AnalysisError(f"abstract interpreter: unknown name {e.id}")
        if isinstance(e, ast.Constant):
            if e.value is None:
                return NONE
            if isinstance(e.value, bool):
                return e.value
            raise AnalysisError(f"abstract interpreter: constant {e.value!r}")
        if isinstance(e, ast.Compare) and len(e.ops) == 1:
            a = self._eval(e.left, env)
            b = self._eval(e.comparators[0], env)
            op = e.ops[0]
            if isinstance(op, (ast.Is, ast.Eq)):
                return a == b
            if isinstance(op, (ast.IsNot, ast.NotEq)):
                return a != b
            raise AnalysisError(f"abstract interpreter: comparison {ast.unparse(e)}")
        if isinstance(e, ast.UnaryOp) and isinstance(e.op, ast.Not):
            return not self._truth(self._eval(e.operand, env), e)
        if isinstance(e, ast.BoolOp):
            if isinstance(e.op, ast.Or):
                for v in e.values:
                    if self._truth(self._eval(v, env), v):
                        return True
                return False
            for v in e.values:
                if not self._truth(self._eval(v, env), v):
                    return False
            return True
        if isinstance(e, ast.Attribute):
            base = self._eval(e.value, env)
            return self.dom.getattr(base, e.attr, e)
        if isinstance(e, ast.IfExp):
            if self._truth(self._eval(e.test, env), e.test):
                return self._eval(e.body, env)
            return self._eval(e.orelse, env)
        if isinstance(e, ast.Call):
            f = e.func
            if isinstance(f, ast.Name) and f.id == "isinstance" and len(e.args) == 2:
                v = self._eval(e.args[0], env)
                c = e.args[1]
                names = [c] if not isinstance(c, ast.Tuple) else c.elts
                for n in names:
                    cname = n.id if isinstance(n, ast.Name) else (
                        n.attr if isinstance(n, ast.Attribute) else None)
                    if cname is None:
                        raise AnalysisError("abstract interpreter: isinstance class")
                    if cname == "NoneType" or cname in self.dom.classes \
                            or cname in self.dom.all_names:
                        if self.dom.isinstance(v, cname):
                            return True
                    else:
                        raise AnalysisError(
                            f"abstract interpreter: isinstance against unknown "
                            f"class {cname}")
                return False
            if isinstance(f, ast.Name) and f.id == "type" and len(e.args) == 1:
                v = self._eval(e.args[0], env)
                return ("type", v[0])
            if isinstance(f, ast.Name) and f.id in self.dom.classes:
                args = [self._eval(a, env) for a in e.args]
                kwargs = {k.arg: self._eval(k.value, env) for k in e.keywords}
                return self.dom.construct(f.id, args, kwargs, e)
            if isinstance(f, ast.Name) and f.id == self.fn.name:
                # recursion
                args = [self._eval(a, env) for a in e.args]
                return Interp(self.fn, self.dom).call(*args)
        raise AnalysisError(
            f"abstract interpreter: unsupported expression at line "
            f"{getattr(e, 'lineno', '?')}: {ast.unparse(e)}")
