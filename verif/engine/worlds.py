"""Path-sensitive forward dataflow over a statement CFG whose state is a *set
of worlds*.  A world is a finite valuation of the facts a rule tracks (an
immutable mapping); the client supplies how a statement changes a world
(possibly forking it), how a branch test evaluates in a world and how a `for`
header binds its target.  States are joined by set union, so the result at a
node is exactly the set of fact combinations that can hold there on some path
of the graph - a finite powerset domain, iterated to a fixpoint over loops.

Nothing of the analysed program is executed: statements are interpreted over
the client's abstract values only.
"""

from __future__ import annotations

from .cfg import forward
from .srcmodel import AnalysisError


class World:
    """Immutable mapping with structural equality."""
    __slots__ = ("_d", "_h")

    def __init__(self, d=None):
        self._d = dict(d or {})
        self._h = None

    def get(self, k, default=None):
        return self._d.get(k, default)

    def __contains__(self, k):
        return k in self._d

    def __getitem__(self, k):
        return self._d[k]

    def set(self, k, v):
        d = dict(self._d)
        d[k] = v
        return World(d)

    def without(self, *ks):
        d = dict(self._d)
        for k in ks:
            d.pop(k, None)
        return World(d)

    def items(self):
        return self._d.items()

    def __hash__(self):
        if self._h is None:
            self._h = hash(frozenset(self._d.items()))
        return self._h

    def __eq__(self, other):
        return isinstance(other, World) and self._d == other._d

    def __repr__(self):
        return "World(" + ", ".join(f"{k}={v!r}" for k, v in sorted(self._d.items(), key=lambda kv: str(kv[0]))) + ")"


def explore(cfg, init_worlds, exec_stmt, eval_test, bind_for, limit=20000):
    """Returns {node: frozenset(World)} - the worlds that can hold on entry to
    each node (None for nodes no world reaches).

    exec_stmt(node, world)      -> iterable of worlds after the statement
    eval_test(test_ast, world)  -> iterable of (truth: bool, world)
    bind_for(for_ast, world)    -> iterable of worlds with the target bound
                                   (one loop iteration starts)
    Exceptional edges are not followed.
    """
    def transfer(n, S):
        if n.kind == "stmt":
            out = set()
            for w in S:
                out.update(exec_stmt(n, w))
            if len(out) > limit:
                raise AnalysisError("worlds: state explosion")
            return frozenset(out)
        return S

    def edge(n, lab, S):
        if lab in ("exc", "raise", "reraise"):
            return None
        if n.kind == "test" and lab in ("T", "F"):
            out = set()
            for w in S:
                for truth, w2 in eval_test(n.ast, w):
                    if truth is (lab == "T"):
                        out.add(w2)
            return frozenset(out) or None
        if n.kind == "for" and lab == "T":
            out = set()
            for w in S:
                out.update(bind_for(n.ast, w))
            return frozenset(out) or None
        return S or None

    return forward(cfg, frozenset(init_worlds), transfer, edge,
                   meet=lambda a, b: a | b, top=None)
