"""Findings, known findings, evidence and exit codes."""

from __future__ import annotations

import ast
import hashlib
import json
import os
import time
from dataclasses import dataclass, field

from .match import norm
from .srcmodel import AnalysisError, Class, Func, Module

VERIF_ROOT = os.path.dirname(os.path.dirname(os.path.dirname(os.path.abspath(__file__))))
KNOWN_FINDINGS = os.path.join(VERIF_ROOT, "known_findings.json")


@dataclass
class Ob:
    rule: str
    ok: bool
    file: str
    line: int
    function: str
    construct: str
    why: str = ""
    detail: str = ""
    vacuous: bool = False

    def key(self):
        # never keyed by line number
        return (self.rule, self.file, self.function, self.construct)

    def as_dict(self):
        return {"rule": self.rule, "verdict": "holds" if self.ok else "VIOLATED",
                "file": self.file, "line": self.line, "function": self.function,
                "construct": self.construct, "why": self.why,
                **({"detail": self.detail} if self.detail else {})}


class Run:
    def __init__(self, prop_id, tier="quick", seed=0, program=None):
        self.prop = prop_id
        self.tier = tier
        self.seed = seed
        self.program = program
        self.obs: list[Ob] = []
        self.notes: list[str] = []
        self.minimum: dict[str, int] = {}
        self.rule_docs: dict[str, str] = {}
        self.extra: dict = {}
        self.t0 = time.time()
        self.analysed_funcs: set[str] = set()
        self.deferred: list[str] = []     # clauses that could not be evaluated

    # {{{ recording

    def do(self, clause, *args, **kwargs):
        """Evaluate one clause.  A clause that does not understand the code it
        is pointed at (AnalysisError) must not hide what the other clauses
        find: the error is kept and decides the outcome only if no clause
        reports a violation."""
        try:
            return clause(*args, **kwargs)
        except AnalysisError as e:
            self.deferred.append(str(e))
            return None
        except (KeyError, AttributeError, IndexError, TypeError, ValueError, StopIteration,
                AssertionError) as e:
            # the clause met a shape of code it was not written for (a method that is
            # gone, a call with other arguments): same standing as an AnalysisError
            import traceback
            tb = traceback.extract_tb(e.__traceback__)
            at = f"{os.path.basename(tb[-1].filename)}:{tb[-1].lineno}" if tb else "?"
            self.deferred.append(f"{getattr(clause, '__name__', 'clause')}: anchor not found "
                                 f"({type(e).__name__}: {e} at {at})")
            return None

    def rule(self, rule_id, doc, minimum=1):
        """Declare a rule with the number of sites confirmed by hand."""
        self.rule_docs[rule_id] = doc
        self.minimum[rule_id] = minimum

    def where(self, where, node=None):
        if isinstance(where, Func):
            self.analysed_funcs.add(where.fq)
            return where.module.relpath, where.qualname, \
                getattr(node, "lineno", None) or where.lineno
        if isinstance(where, Class):
            return where.module.relpath, where.name, \
                getattr(node, "lineno", None) or where.node.lineno
        if isinstance(where, Module):
            return where.relpath, "<module>", getattr(node, "lineno", 0) or 0
        if isinstance(where, tuple):
            return where
        raise TypeError(where)

    def ob(self, rule, where, node, ok, why="", construct=None, detail=""):
        if rule not in self.rule_docs:
            raise AnalysisError(f"undeclared rule {rule}")
        file, function, line = self.where(where, node)
        if construct is None:
            construct = norm(node) if isinstance(node, ast.AST) else str(node)
        o = Ob(rule, bool(ok), file, line, function, construct, why, detail)
        self.obs.append(o)
        return o

    def note(self, text):
        self.notes.append(text)

    # }}}

    # {{{ finishing

    def check_minimums(self):
        if self.deferred:
            known = load_known()
            if any(known_match(self.prop, o, known) is None for o in self.violations()):
                # the violations stand on their own; obligation counts are moot
                self.note("clauses not evaluated (code shape not recognised): "
                          + "; ".join(self.deferred[:3]))
                return
            raise AnalysisError(self.deferred[0] + (
                f" (and {len(self.deferred) - 1} more)" if len(self.deferred) > 1 else ""))
        counts = {}
        for o in self.obs:
            counts[o.rule] = counts.get(o.rule, 0) + 1
        for rid, mn in self.minimum.items():
            if counts.get(rid, 0) < mn:
                raise AnalysisError(
                    f"rule {rid}: matched {counts.get(rid, 0)} site(s), "
                    f"hand-confirmed minimum is {mn} -- anchor vanished or "
                    f"idiom not recognised")

    def violations(self):
        return [o for o in self.obs if not o.ok]


def load_known():
    if not os.path.exists(KNOWN_FINDINGS):
        return {"open": [], "fixed": []}
    with open(KNOWN_FINDINGS) as f:
        return json.load(f)


def known_match(prop, o: Ob, known):
    for k in known.get("open", []):
        if k.get("property") != prop:
            continue
        if k.get("rule") == o.rule and k.get("file") == o.file \
                and k.get("function") == o.function \
                and k.get("construct") == o.construct:
            return k
    return None


def finding_id(prop, o: Ob):
    h = hashlib.sha256("|".join((prop,) + o.key()).encode()).hexdigest()[:10]
    return f"{o.rule}-{h}"


def finish(run: Run, explanation, assumptions, checker_cmd, rule_text,
           trusted_base=None, replay_only=None, write_evidence=True):
    """Print report, write evidence, return exit code."""
    run.check_minimums()
    known = load_known()
    out_dir = os.path.join(VERIF_ROOT, "out", run.prop)
    vio = []
    known_hit = []
    for o in run.violations():
        k = known_match(run.prop, o, known)
        if k is not None:
            known_hit.append((o, k))
        else:
            vio.append(o)

    for n in run.notes:
        print(f"NOTE: {n}")
    for o, k in known_hit:
        print(f"KNOWN-FINDING: property={run.prop} rule={o.rule} "
              f"{o.file}:{o.line} {o.function}: {k.get('what', o.why)}")
    replay_paths = []
    if vio:
        os.makedirs(out_dir, exist_ok=True)
    for o in vio:
        print(f"{o.file}:{o.line} rule={o.rule} function={o.function} "
              f"construct={o.construct!r} why={o.why}"
              + (f" detail={o.detail}" if o.detail else ""))
        fid = finding_id(run.prop, o)
        path = os.path.join(out_dir, fid + ".json")
        with open(path, "w") as f:
            json.dump({"property": run.prop, "finding": fid, **o.as_dict(),
                       "rule_doc": run.rule_docs.get(o.rule, "")}, f, indent=1)
        replay_paths.append(path)
        print(f"VIOLATION property={run.prop} replay={path}")

    n_ob = len(run.obs)
    n_ok = sum(1 for o in run.obs if o.ok)
    distinct = len({o.key() for o in run.obs})
    per_rule = {}
    for o in run.obs:
        d = per_rule.setdefault(o.rule, {"sites": 0, "held": 0})
        d["sites"] += 1
        d["held"] += int(o.ok)
    samples = []
    seen_rules = set()
    for o in run.obs:
        if o.rule not in seen_rules or not o.ok:
            seen_rules.add(o.rule)
            samples.append(o.as_dict())
    samples = samples[:40]

    wall = time.time() - run.t0
    print(f"[{run.prop}] tier={run.tier} rules={len(run.rule_docs)} "
          f"obligations={n_ob} held={n_ok} known={len(known_hit)} "
          f"violations={len(vio)} functions={len(run.analysed_funcs)} "
          f"wall={wall:.2f}s")

    if write_evidence:
        ev = {
            "property_id": run.prop,
            "tier": run.tier,
            "seed": run.seed,
            "level": "other",
            "coverage": {
                "explanation": explanation,
                "obligations": n_ob,
                "discharged": n_ok,
                "evaluations": n_ob,
                "distinct_nontrivial": distinct,
                "rule": rule_text,
                "samples": samples,
                "checker_cmd": checker_cmd,
                "trusted_base": trusted_base or [],
                "rules": {rid: {"doc": run.rule_docs[rid],
                                "min_sites": run.minimum[rid],
                                **per_rule.get(rid, {"sites": 0, "held": 0})}
                          for rid in run.rule_docs},
                "functions_analysed": sorted(run.analysed_funcs),
                "modules": (run.program.digests() if run.program else {}),
                "known_findings_reported": [
                    {"rule": o.rule, "function": o.function, "construct": o.construct}
                    for o, _ in known_hit],
                "notes": run.notes,
                **run.extra,
            },
            "assumptions": assumptions,
            "wall_s": round(wall, 3),
            "violations": len(vio),
        }
        os.makedirs(os.path.join(VERIF_ROOT, "evidence"), exist_ok=True)
        with open(os.path.join(VERIF_ROOT, "evidence", run.prop + ".json"), "w") as f:
            json.dump(ev, f, indent=1, sort_keys=False)

    return 1 if vio else 0
