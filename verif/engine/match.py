"""Small AST helpers shared by the rules."""

from __future__ import annotations

import ast

from .cfg import walk_fragment


def dotted(node):
    """'self.plan.pop' for Name/Attribute chains, else None."""
    parts = []
    while isinstance(node, ast.Attribute):
        parts.append(node.attr)
        node = node.value
    if isinstance(node, ast.Name):
        parts.append(node.id)
        return ".".join(reversed(parts))
    if isinstance(node, ast.Call) and isinstance(node.func, ast.Name) \
            and node.func.id == "super" and parts:
        parts.append("super()")
        return ".".join(reversed(parts))
    return None


def norm(node, limit=200):
    try:
        s = ast.unparse(node)
    except Exception:
        s = type(node).__name__
    s = " ".join(s.split())
    return s if len(s) <= limit else s[: limit - 3] + "..."


def calls_in(frag, nested=False):
    it = ast.walk(frag) if nested else walk_fragment(frag)
    return [n for n in it if isinstance(n, ast.Call)]


def call_name(call):
    return dotted(call.func)


def is_call(node, *names):
    """node is a Call whose dotted callee equals or ends with one of names
    ('.append' matches any receiver)."""
    if not isinstance(node, ast.Call):
        return False
    d = dotted(node.func)
    if d is None:
        if isinstance(node.func, ast.Attribute):
            d = "?." + node.func.attr
        else:
            return False
    for n in names:
        if n.startswith("."):
            if d.endswith(n) or ("." + d).endswith(n):
                return True
        elif d == n:
            return True
    return False


def method_calls(frag, attr, nested=False):
    """Calls of the form <recv>.<attr>(...)"""
    return [c for c in calls_in(frag, nested)
            if isinstance(c.func, ast.Attribute) and c.func.attr == attr]


def names_loaded(frag, nested=True):
    it = ast.walk(frag) if nested else walk_fragment(frag)
    return {n.id for n in it if isinstance(n, ast.Name)
            and isinstance(n.ctx, ast.Load)}


def names_stored(frag):
    out = set()
    for n in walk_fragment(frag):
        if isinstance(n, ast.Name) and isinstance(n.ctx, (ast.Store, ast.Del)):
            out.add(n.id)
    return out


def assign_targets(stmt):
    """Flat list of target expressions of an assignment-like statement."""
    if isinstance(stmt, ast.Assign):
        ts = []
        for t in stmt.targets:
            ts.extend(_flatten_target(t))
        return ts
    if isinstance(stmt, (ast.AugAssign, ast.AnnAssign)):
        return _flatten_target(stmt.target)
    return []


def _flatten_target(t):
    if isinstance(t, (ast.Tuple, ast.List)):
        out = []
        for e in t.elts:
            out.extend(_flatten_target(e))
        return out
    if isinstance(t, ast.Starred):
        return _flatten_target(t.value)
    return [t]


def kwarg(call, name, pos=None):
    for k in call.keywords:
        if k.arg == name:
            return k.value
    if pos is not None and len(call.args) > pos:
        a = call.args[pos]
        if not isinstance(a, ast.Starred):
            return a
    return None


def func_body_stmts(func_node, nested=False):
    """All statements in a function body (descending into compound statements,
    optionally into nested defs)."""
    out = []
    stack = list(reversed(func_node.body))
    while stack:
        s = stack.pop()
        out.append(s)
        if isinstance(s, (ast.FunctionDef, ast.AsyncFunctionDef, ast.ClassDef)) \
                and not nested:
            continue
        for fld in ("finalbody", "handlers", "orelse", "body"):
            sub = getattr(s, fld, None)
            if sub:
                for c in reversed(sub):
                    if isinstance(c, ast.AST):
                        stack.append(c)
    return out


def returns_of(func_node):
    return [s for s in func_body_stmts(func_node) if isinstance(s, ast.Return)]


def contains(node, pred, nested=True):
    it = ast.walk(node) if nested else walk_fragment(node)
    return any(pred(n) for n in it)


def string_value(node):
    """Constant-fold simple string expressions: literals, concatenation,
    implicit joins, f-strings without substitutions."""
    if isinstance(node, ast.Constant) and isinstance(node.value, str):
        return node.value
    if isinstance(node, ast.BinOp) and isinstance(node.op, ast.Add):
        a, b = string_value(node.left), string_value(node.right)
        if a is not None and b is not None:
            return a + b
    if isinstance(node, ast.JoinedStr):
        out = ""
        for v in node.values:
            if isinstance(v, ast.Constant):
                out += str(v.value)
            else:
                return None
        return out
    return None


def string_prefix(node):
    """Longest constant prefix of a string-building expression
    ('abc' + x, 'abc%s' % x, 'abc{}'.format(x), f'abc{x}')."""
    s = string_value(node)
    if s is not None:
        return s
    if isinstance(node, ast.BinOp) and isinstance(node.op, ast.Add):
        a = string_value(node.left)
        if a is not None:
            b = string_prefix(node.right)
            return a + (b or "")
        return string_prefix(node.left)
    if isinstance(node, ast.BinOp) and isinstance(node.op, ast.Mod):
        a = string_value(node.left)
        if a is not None:
            i = a.find("%")
            return a if i < 0 else a[:i]
    if isinstance(node, ast.Call) and isinstance(node.func, ast.Attribute) \
            and node.func.attr == "format":
        a = string_value(node.func.value)
        if a is not None:
            i = a.find("{")
            return a if i < 0 else a[:i]
    if isinstance(node, ast.JoinedStr):
        out = ""
        for v in node.values:
            if isinstance(v, ast.Constant):
                out += str(v.value)
            else:
                break
        return out
    return None


def terminal(block):
    """The statement with which a block unconditionally leaves (return, raise,
    continue, break as its last statement), else None.  Rules use this rather
    than ``block[0]`` so that a log line ahead of the exit does not matter."""
    if block and isinstance(block[-1], (ast.Return, ast.Raise, ast.Continue, ast.Break)):
        return block[-1]
    return None


def leaves_with(block, kind, value=None):
    """Block ends in a statement of the given kind (and, for return, with the
    given normalised value)."""
    t = terminal(block)
    if not isinstance(t, kind):
        return False
    if value is not None:
        return isinstance(t, ast.Return) and t.value is not None and norm(t.value) == value
    return True
