"""Provenance analysis: which attribute paths of a root object does an
expression denote?

Paths are strings relative to a root variable (``stmt`` in an interpreter
method, ``self`` in a statement method):

    rhs                 attribute
    lhs.index           nested attribute
    loops[*]            an element of a sequence
    loops[*][1]         position 1 of an element tuple
    kw_parameters{v}    a value of a dict        ({k}: a key)

A provenance value is either a frozenset of such paths (``PSet``) or a
``PTuple`` of provenance values (the element of ``zip(...)``,
``dict.items()``, ``enumerate(...)``).
"""

from __future__ import annotations

import ast

from .cfg import walk_fragment
from .srcmodel import Func

EMPTY = frozenset()


class PTuple(tuple):
    pass


def pjoin(p, suffix):
    return (p + suffix) if not suffix.startswith(".") or p else suffix[1:]


def _flat(p):
    if isinstance(p, PTuple):
        out = EMPTY
        for x in p:
            out |= _flat(x)
        return out
    return p


PASS_THROUGH = {"list", "tuple", "sorted", "set", "frozenset", "iter", "reversed",
                "natsorted", "dict", "immutabledict", "flatten"}


class Env:
    def __init__(self, roots, parent=None):
        self.roots = dict(roots)     # name -> base path ("" for the root itself)
        self.vars = {}
        self.parent = parent

    def child(self):
        return Env({}, parent=self)

    def get(self, name):
        e = self
        while e is not None:
            if name in e.vars:
                return e.vars[name]
            if name in e.roots:
                return frozenset({e.roots[name]})
            e = e.parent
        return None

    def set(self, name, p):
        old = self.vars.get(name)
        if old is not None and not isinstance(old, PTuple) and not isinstance(p, PTuple):
            p = old | p
        self.vars[name] = p


def prov(node, env: Env):
    """Provenance of expression *node* (frozenset of paths or PTuple)."""
    if isinstance(node, ast.Name):
        v = env.get(node.id)
        return v if v is not None else EMPTY
    if isinstance(node, ast.Attribute):
        p = prov(node.value, env)
        if isinstance(p, PTuple):
            return EMPTY
        return frozenset(pjoin(s, "." + node.attr) for s in p)
    if isinstance(node, ast.Subscript):
        p = prov(node.value, env)
        if isinstance(node.slice, ast.Slice):
            return p
        if isinstance(p, PTuple):
            if isinstance(node.slice, ast.Constant) and isinstance(node.slice.value, int) \
                    and -len(p) <= node.slice.value < len(p):
                return p[node.slice.value]
            return _flat(p)
        # element tuple position?
        if isinstance(node.slice, ast.Constant) and isinstance(node.slice.value, int):
            out = set()
            for s in p:
                if s.endswith("[*]"):
                    out.add(f"{s}[{node.slice.value}]")
                else:
                    out.add(s + "[*]")
            return frozenset(out)
        return frozenset(s + "[*]" for s in p)
    if isinstance(node, ast.Call):
        f = node.func
        if isinstance(f, ast.Attribute) and f.attr in ("items", "values", "keys") \
                and not node.args:
            p = _flat(prov(f.value, env))
            tag = {"items": "{items}", "values": "{v}", "keys": "{k}"}[f.attr]
            if f.attr == "items":
                return frozenset(s + tag for s in p)
            # iterating values() yields the values themselves: model the view as
            # the collection whose elements are s{v}
            return frozenset(s + tag + "<view>" for s in p)
        if isinstance(f, ast.Attribute) and f.attr in ("copy", "union", "get"):
            return _flat(prov(f.value, env))
        if isinstance(f, ast.Name):
            if f.id in PASS_THROUGH and len(node.args) >= 1:
                return prov(node.args[0], env)
            if f.id == "zip":
                return _Zip([prov(a, env) for a in node.args])
            if f.id == "enumerate" and node.args:
                return _Zip([None, prov(node.args[0], env)], enum=True)
            if f.id == "chain":
                out = EMPTY
                for a in node.args:
                    out |= _flat(prov(a.value if isinstance(a, ast.Starred) else a, env))
                return out
        return EMPTY
    if isinstance(node, ast.IfExp):
        a, b = prov(node.body, env), prov(node.orelse, env)
        if isinstance(a, PTuple) or isinstance(b, PTuple):
            return a if isinstance(a, PTuple) else b
        return a | b
    if isinstance(node, (ast.Tuple, ast.List)):
        return PTuple(prov(e, env) for e in node.elts)
    if isinstance(node, ast.Starred):
        return prov(node.value, env)
    if isinstance(node, ast.BinOp):
        a, b = _flat(prov(node.left, env)), _flat(prov(node.right, env))
        return a | b
    if isinstance(node, (ast.GeneratorExp, ast.ListComp, ast.SetComp)):
        sub = env.child()
        for g in node.generators:
            bind_target(g.target, iter_elem(prov(g.iter, sub)), sub)
        e = prov(node.elt, sub)
        # the comprehension is a collection of e
        if isinstance(e, PTuple):
            return _Coll(e)
        return frozenset(_unelem(s) for s in e)
    return EMPTY


class _Zip(frozenset):
    """Marker provenance for zip()/enumerate(): iterating yields a PTuple."""
    def __new__(cls, parts, enum=False):
        self = super().__new__(cls)
        self.parts = parts
        self.enum = enum
        return self


class _Coll(frozenset):
    """Collection whose elements have PTuple provenance."""
    def __new__(cls, elem):
        self = super().__new__(cls)
        self.elem = elem
        return self


def _unelem(s):
    # a collection built from elements s: iterating it again gives s back
    return s[:-3] if s.endswith("[*]") else s + "<coll>"


def iter_elem(p):
    if isinstance(p, _Zip):
        return PTuple((iter_elem(x) if x is not None else EMPTY) for x in p.parts)
    if isinstance(p, _Coll):
        return p.elem
    if isinstance(p, PTuple):
        return _flat(p)
    out = set()
    tup = None
    for s in p:
        if s.endswith("{items}"):
            base = s[: -len("{items}")]
            tup = PTuple((frozenset({base + "{k}"}), frozenset({base + "{v}"})))
        elif s.endswith("<view>"):
            out.add(s[: -len("<view>")])
        elif s.endswith("<coll>"):
            out.add(s[: -len("<coll>")])
        else:
            out.add(s + "[*]")
    if tup is not None and not out:
        return tup
    return frozenset(out)


def bind_target(target, p, env: Env, strong=False):
    """strong: the binding replaces what the name held (a loop target is
    bound afresh on every iteration; inside the body it holds an element of
    this loop's iterable and nothing else)."""
    if isinstance(target, ast.Name):
        if strong:
            env.vars[target.id] = p
        else:
            env.set(target.id, p)
    elif isinstance(target, (ast.Tuple, ast.List)):
        for i, e in enumerate(target.elts):
            if isinstance(e, ast.Starred):
                bind_target(e.value, _flat(p) if isinstance(p, PTuple) else p, env, strong)
                continue
            if isinstance(p, PTuple):
                bind_target(e, p[i] if i < len(p) else EMPTY, env, strong)
            else:
                bind_target(e, frozenset(f"{s}[{i}]" for s in p), env, strong)


class Scanner:
    """Walks a function body in textual order, maintaining an Env, and calls
    ``on_call(call, env, func)`` for every call expression.  Calls of nested
    functions are inlined with their parameters bound to the provenance of the
    arguments."""

    def __init__(self, program, func: Func, roots, on_call, on_stmt=None,
                 max_depth=4):
        self.P = program
        self.func = func
        self.on_call = on_call
        self.on_stmt = on_stmt
        self.max_depth = max_depth
        self._memo = set()
        self.env = Env(roots)

    def run(self):
        self._body(self.func.node.body, self.env, self.func, 0)
        # second pass so that loop-carried bindings are visible
        self._body(self.func.node.body, self.env, self.func, 0)
        # a nested function that is handed on as a value (a callback given to a user function,
        # say) runs with the closure's bindings and unknown arguments: its body is part of
        # what the function does
        for name, nf in sorted(getattr(self.func, "nested", {}).items()):
            escapes = any(isinstance(x, ast.Name) and x.id == name and isinstance(x.ctx, ast.Load)
                          and not any(isinstance(c_, ast.Call) and c_.func is x
                                      for c_ in ast.walk(self.func.node))
                          for x in ast.walk(self.func.node))
            if escapes and not isinstance(nf.node, ast.Lambda):
                sub = self.env.child()
                for p_ in nf.params:
                    sub.vars[p_] = None
                self._body(nf.node.body, sub, nf, 1)
                self._body(nf.node.body, sub, nf, 1)
        return self.env

    def _body(self, stmts, env, func, depth):
        for s in stmts:
            self._stmt(s, env, func, depth)

    def _stmt(self, s, env, func, depth):
        if isinstance(s, (ast.FunctionDef, ast.AsyncFunctionDef, ast.ClassDef)):
            return
        if self.on_stmt:
            self.on_stmt(s, env, func)
        if isinstance(s, ast.Assign):
            self._expr(s.value, env, func, depth)
            p = prov(s.value, env)
            for t in s.targets:
                self._expr_targets(t, env, func, depth)
                bind_target(t, p, env)
            return
        if isinstance(s, ast.AugAssign):
            self._expr(s.value, env, func, depth)
            if isinstance(s.target, ast.Name):
                env.set(s.target.id, _flat(prov(s.value, env)))
            return
        if isinstance(s, (ast.For, ast.AsyncFor)):
            self._expr(s.iter, env, func, depth)
            bind_target(s.target, iter_elem(prov(s.iter, env)), env, strong=True)
            self._body(s.body, env, func, depth)
            self._body(s.orelse, env, func, depth)
            return
        if isinstance(s, ast.While):
            self._expr(s.test, env, func, depth)
            self._body(s.body, env, func, depth)
            self._body(s.orelse, env, func, depth)
            return
        if isinstance(s, ast.If):
            self._expr(s.test, env, func, depth)
            self._body(s.body, env, func, depth)
            self._body(s.orelse, env, func, depth)
            return
        if isinstance(s, (ast.With, ast.AsyncWith)):
            for it in s.items:
                self._expr(it.context_expr, env, func, depth)
            self._body(s.body, env, func, depth)
            return
        if isinstance(s, ast.Try):
            self._body(s.body, env, func, depth)
            for h in s.handlers:
                self._body(h.body, env, func, depth)
            self._body(s.orelse, env, func, depth)
            self._body(s.finalbody, env, func, depth)
            return
        for c in ast.iter_child_nodes(s):
            if isinstance(c, ast.expr):
                self._expr(c, env, func, depth)

    def _expr_targets(self, t, env, func, depth):
        # subscripts / attribute targets contain expressions that are evaluated
        if isinstance(t, (ast.Subscript, ast.Attribute)):
            self._expr(t, env, func, depth)
        elif isinstance(t, (ast.Tuple, ast.List)):
            for e in t.elts:
                self._expr_targets(e, env, func, depth)

    def _expr(self, node, env, func, depth):
        if isinstance(node, (ast.GeneratorExp, ast.ListComp, ast.SetComp, ast.DictComp)):
            sub = env.child()
            for g in node.generators:
                self._expr(g.iter, sub, func, depth)
                bind_target(g.target, iter_elem(prov(g.iter, sub)), sub)
                for c in g.ifs:
                    self._expr(c, sub, func, depth)
            if isinstance(node, ast.DictComp):
                self._expr(node.key, sub, func, depth)
                self._expr(node.value, sub, func, depth)
            else:
                self._expr(node.elt, sub, func, depth)
            return
        if isinstance(node, ast.Lambda):
            return
        if isinstance(node, ast.Call):
            self.on_call(node, env, func)
            # inline nested function?
            if isinstance(node.func, ast.Name):
                target = None
                f = func
                while f is not None and target is None:
                    target = f.nested.get(node.func.id)
                    f = f.parent
                if target is not None and depth < self.max_depth:
                    argp = [prov(a, env) for a in node.args]
                    key = (target.fq, tuple(
                        tuple(sorted(_flat(a))) if a is not None else None for a in argp))
                    if key not in self._memo:
                        self._memo.add(key)
                        sub = env.child()
                        for name, p in zip(target.params, argp):
                            sub.vars[name] = p
                        self._body(target.node.body, sub, target, depth + 1)
                        self._body(target.node.body, sub, target, depth + 1)
        for c in ast.iter_child_nodes(node):
            if isinstance(c, ast.expr):
                self._expr(c, env, func, depth)
            elif isinstance(c, ast.keyword):
                self._expr(c.value, env, func, depth)
            elif isinstance(c, ast.comprehension):
                pass


def flat(p):
    return _flat(p)
