"""Program model: modules, classes (with C3 MRO), functions, imports.

Built with the standard library ``ast`` module only.  Nothing under the
analysed tree is imported or executed.

The model can be built from disk or from an *overlay* ``{relative path: source
text}`` that replaces individual files in memory (used by the self-validation
tier to analyse mutated / refactored variants without touching the disk).
"""

from __future__ import annotations

import ast
import hashlib
import os
from dataclasses import dataclass, field


class AnalysisError(Exception):
    """An anchor vanished or the analyser met something it cannot interpret.

    Mapped to exit code 2 (ANALYSIS-ERROR), never to a VIOLATION.
    """


REPO_ROOT = os.environ.get("VERIF_REPO", "/repo")
SITE = os.environ.get("VERIF_SITE", "/venv/lib/python3.12/site-packages")

# library modules the repo resolves into (the trusted base; re-read every run)
TRUSTED_MODULES = {
    "pymbolic.mapper": "pymbolic/mapper/__init__.py",
    "pymbolic.mapper.stringifier": "pymbolic/mapper/stringifier.py",
    "pymbolic.mapper.dependency": "pymbolic/mapper/dependency.py",
    "pymbolic.mapper.evaluator": "pymbolic/mapper/evaluator.py",
    "pymbolic.mapper.unifier": "pymbolic/mapper/unifier.py",
    "pymbolic.mapper.collector": "pymbolic/mapper/collector.py",
    "pymbolic.mapper.substitutor": "pymbolic/mapper/substitutor.py",
    "pymbolic.primitives": "pymbolic/primitives.py",
    "pymbolic.imperative.transform": "pymbolic/imperative/transform.py",
    "pymbolic.imperative.analysis": "pymbolic/imperative/analysis.py",
    "pytools": "pytools/__init__.py",
    "pytools.py_codegen": "pytools/py_codegen.py",
    "pytools.codegen": "pytools/codegen.py",
}


@dataclass(eq=False)
class Func:
    name: str
    qualname: str           # module-relative, e.g. CodeBuilder._add_statement
    module: "Module"
    node: ast.AST           # FunctionDef / AsyncFunctionDef / Lambda
    cls: "Class | None" = None
    parent: "Func | None" = None
    nested: dict = field(default_factory=dict)
    local_imports: dict = field(default_factory=dict)   # name -> (module, attr)

    @property
    def fq(self):
        return f"{self.module.name}.{self.qualname}"

    @property
    def params(self):
        a = self.node.args
        return [x.arg for x in a.posonlyargs + a.args]

    def arg(self, i):
        """Name of the i-th parameter, not counting the receiver of a method."""
        ps = self.params
        if self.cls is not None and ps and not any(
                isinstance(d, ast.Name) and d.id == "staticmethod"
                for d in getattr(self.node, "decorator_list", [])):
            ps = ps[1:]
        if i >= len(ps):
            raise AnalysisError(f"{self.qualname}: no parameter #{i}")
        return ps[i]

    @property
    def lineno(self):
        return self.node.lineno

    def __repr__(self):
        return f"<Func {self.fq}>"


@dataclass(eq=False)
class Class:
    name: str
    module: "Module"
    node: ast.ClassDef
    methods: dict = field(default_factory=dict)     # name -> Func
    attrs: dict = field(default_factory=dict)       # name -> ast.expr (class-level assign)
    bases: list = field(default_factory=list)       # Class | str (unresolved dotted name)

    @property
    def fq(self):
        return f"{self.module.name}.{self.name}"

    def __repr__(self):
        return f"<Class {self.fq}>"


@dataclass(eq=False)
class Module:
    name: str
    path: str
    relpath: str
    source: str
    tree: ast.Module
    trusted: bool = False
    functions: dict = field(default_factory=dict)   # qualname -> Func (all, incl nested & methods)
    classes: dict = field(default_factory=dict)     # name -> Class
    imports: dict = field(default_factory=dict)     # local name -> (module name, attr or None)
    assigns: dict = field(default_factory=dict)     # module-level name -> ast.expr

    @property
    def digest(self):
        return hashlib.sha256(self.source.encode()).hexdigest()[:16]

    def __repr__(self):
        return f"<Module {self.name}>"


def _import_table(body_nodes, modname, is_pkg):
    """Collect import bindings from a list of statements (not descending into
    nested function/class bodies)."""
    table = {}
    for n in body_nodes:
        if isinstance(n, ast.Import):
            for a in n.names:
                if a.asname:
                    table[a.asname] = (a.name, None)
                else:
                    table[a.name.split(".")[0]] = (a.name.split(".")[0], None)
        elif isinstance(n, ast.ImportFrom):
            base = n.module or ""
            if n.level:
                parts = modname.split(".")
                if not is_pkg:
                    parts = parts[:-1]
                parts = parts[: len(parts) - (n.level - 1)]
                base = ".".join(parts + ([n.module] if n.module else []))
            for a in n.names:
                table[a.asname or a.name] = (base, a.name)
    return table


def _module_level_imports(tree):
    out = []

    def visit(body):
        for n in body:
            if isinstance(n, (ast.Import, ast.ImportFrom)):
                out.append(n)
            elif isinstance(n, (ast.If, ast.Try)):
                visit(n.body)
                visit(n.orelse)
                for h in getattr(n, "handlers", []):
                    visit(h.body)
                visit(getattr(n, "finalbody", []))

    visit(tree.body)
    return out


def _walk_no_nested(node):
    """Yield statements of a function body, descending into compound statements
    but not into nested function / class definitions."""
    stack = list(getattr(node, "body", []))
    while stack:
        n = stack.pop()
        yield n
        if isinstance(n, (ast.FunctionDef, ast.AsyncFunctionDef, ast.ClassDef)):
            continue
        for fld in ("body", "orelse", "finalbody", "handlers"):
            for c in getattr(n, fld, []) or []:
                stack.append(c)


def _always_leaves(block):
    """Some statement of the block leaves on every path (what follows it, if
    anything, is unreachable)."""
    for st in block or ():
        if isinstance(st, (ast.Return, ast.Raise, ast.Continue, ast.Break)):
            return True
        if isinstance(st, ast.If) and _always_leaves(st.body) and _always_leaves(st.orelse):
            return True
    return False


def _canonicalise(tree):
    """Two layout choices are normalised when a module is loaded, so that no
    rule depends on them:

    * `pass` statements that share a block with other statements are dropped;
    * `if c: <body that always leaves> else: B` becomes the `if` followed by B
      (an `elif` chain is an else holding one `if`, and is dissolved the same
      way) - the early-exit form and the if/else form of the same code are one;
    * of the two arms of a conditional the one that always leaves comes first
      (the test is negated if need be), of two leaving arms the shorter one;
      where that does not decide, the test carries no leading `not` -
      `if not c: A else: B` is `if c: B else: A`.
    """
    changed = True
    while changed:
        changed = False
        for n in ast.walk(tree):
            for fld in ("body", "orelse", "finalbody"):
                blk = getattr(n, fld, None)
                if not isinstance(blk, list) or not blk or not all(isinstance(x, ast.stmt) for x in blk):
                    continue
                if len(blk) > 1 and any(isinstance(x, ast.Pass) for x in blk):
                    kept = [x for x in blk if not isinstance(x, ast.Pass)]
                    blk[:] = kept or blk[:1]
                    changed = True
                new = []
                for st in blk:
                    new.append(st)
                    if isinstance(st, ast.If) and st.orelse:
                        lb, lo = _always_leaves(st.body), _always_leaves(st.orelse)
                        negated = isinstance(st.test, ast.UnaryOp) and isinstance(st.test.op, ast.Not)
                        # the arm that leaves comes first; of two leaving arms the
                        # shorter one (the guard clause); otherwise the test carries no 'not'
                        if lb and lo:
                            sb = sum(1 for s_ in st.body for _ in ast.walk(s_))
                            so = sum(1 for s_ in st.orelse for _ in ast.walk(s_))
                            swap = so < sb or (so == sb and negated)
                        else:
                            swap = (lo and not lb) or (not lb and not lo and negated)
                        if swap:
                            st.test = st.test.operand if negated else ast.copy_location(
                                ast.UnaryOp(op=ast.Not(), operand=st.test), st.test)
                            st.body, st.orelse = st.orelse, st.body
                            changed = True
                    if isinstance(st, ast.If) and st.orelse and _always_leaves(st.body):
                        new.extend(st.orelse)
                        st.orelse = []
                        changed = True
                if len(new) != len(blk):
                    blk[:] = new


class Program:
    def __init__(self, repo_root=None, overlay=None, package="dagrt"):
        self.repo_root = repo_root or REPO_ROOT
        self.overlay = dict(overlay or {})
        self.package = package
        self.modules: dict[str, Module] = {}
        self._mro_cache = {}
        self._load()

    # {{{ loading

    def _read(self, path, relpath):
        if relpath in self.overlay:
            return self.overlay[relpath]
        with open(path, encoding="utf-8") as f:
            return f.read()

    def _load(self):
        pkg_dir = os.path.join(self.repo_root, self.package)
        if not os.path.isdir(pkg_dir):
            raise AnalysisError(f"package directory not found: {pkg_dir}")
        for dirpath, dirnames, filenames in sorted(os.walk(pkg_dir)):
            dirnames[:] = sorted(d for d in dirnames if d != "__pycache__")
            for fn in sorted(filenames):
                if not fn.endswith(".py"):
                    continue
                path = os.path.join(dirpath, fn)
                rel = os.path.relpath(path, self.repo_root)
                modname = rel[:-3].replace(os.sep, ".")
                is_pkg = False
                if modname.endswith(".__init__"):
                    modname = modname[: -len(".__init__")]
                    is_pkg = True
                self._add_module(modname, path, rel, is_pkg, trusted=False)
        # overlay files that do not exist on disk (in-memory control modules)
        loaded = {m.relpath for m in self.modules.values()}
        for rel in sorted(self.overlay):
            if rel in loaded or not rel.endswith(".py") \
                    or not rel.startswith(self.package + os.sep):
                continue
            modname = rel[:-3].replace(os.sep, ".")
            self._add_module(modname, os.path.join(self.repo_root, rel), rel,
                             False, trusted=False)
        for modname, rel in TRUSTED_MODULES.items():
            path = os.path.join(SITE, rel)
            if not os.path.exists(path):
                continue
            self._add_module(modname, path, "site-packages/" + rel,
                             rel.endswith("__init__.py"), trusted=True)
        for m in self.modules.values():
            self._resolve_bases(m)

    def _add_module(self, modname, path, rel, is_pkg, trusted):
        src = self._read(path, rel)
        try:
            tree = ast.parse(src, filename=path)
        except SyntaxError as e:
            raise AnalysisError(f"cannot parse {rel}: {e}")
        if not trusted:
            _canonicalise(tree)      # trusted library files are read as they are
        m = Module(modname, path, rel, src, tree, trusted=trusted)
        m.is_pkg = is_pkg
        m.imports = _import_table(_module_level_imports(tree), modname, is_pkg)
        for n in tree.body:
            if isinstance(n, ast.Assign):
                for t in n.targets:
                    if isinstance(t, ast.Name):
                        m.assigns[t.id] = n.value
            elif isinstance(n, ast.AnnAssign) and isinstance(n.target, ast.Name) \
                    and n.value is not None:
                m.assigns[n.target.id] = n.value
        self._collect_defs(m, tree.body, prefix="", cls=None, parent=None)
        self.modules[modname] = m

    def _collect_defs(self, m, body, prefix, cls, parent):
        for n in body:
            if isinstance(n, (ast.FunctionDef, ast.AsyncFunctionDef)):
                qn = prefix + n.name
                f = Func(n.name, qn, m, n, cls=cls, parent=parent)
                f.local_imports = _import_table(
                    [s for s in _walk_no_nested(n)
                     if isinstance(s, (ast.Import, ast.ImportFrom))],
                    m.name, getattr(m, "is_pkg", False))
                m.functions[qn] = f
                if cls is not None and parent is None:
                    cls.methods[n.name] = f
                if parent is not None:
                    parent.nested[n.name] = f
                # nested defs (anywhere inside, but not inside nested defs)
                inner = [s for s in _walk_no_nested(n)
                         if isinstance(s, (ast.FunctionDef, ast.AsyncFunctionDef,
                                           ast.ClassDef))]
                self._collect_defs(m, sorted(inner, key=lambda s: s.lineno),
                                   qn + ".", cls, f)
            elif isinstance(n, ast.ClassDef):
                if parent is not None:
                    # class nested in a function: record but don't index globally
                    continue
                c = Class(n.name, m, n)
                m.classes[n.name] = c
                for s in n.body:
                    if isinstance(s, ast.Assign):
                        for t in s.targets:
                            if isinstance(t, ast.Name):
                                c.attrs[t.id] = s.value
                    elif isinstance(s, ast.AnnAssign) and isinstance(s.target, ast.Name) \
                            and s.value is not None:
                        c.attrs[s.target.id] = s.value
                self._collect_defs(m, n.body, n.name + ".", c, None)
                # method aliases:  map_min = map_max
                for name, val in list(c.attrs.items()):
                    if isinstance(val, ast.Name) and val.id in c.methods:
                        c.methods.setdefault(name, c.methods[val.id])

    def _resolve_bases(self, m):
        for c in m.classes.values():
            c.bases = []
            for b in c.node.bases:
                if isinstance(b, ast.Subscript):      # Generic[...]
                    b = b.value
                target = self.resolve_expr(m, b)
                if isinstance(target, Class):
                    c.bases.append(target)
                else:
                    try:
                        c.bases.append(ast.unparse(b))
                    except Exception:
                        c.bases.append("?")

    # }}}

    # {{{ lookup

    def module(self, name) -> Module:
        try:
            return self.modules[name]
        except KeyError:
            raise AnalysisError(f"module not found: {name}")

    def cls(self, fq) -> Class:
        modname, _, cname = fq.rpartition(".")
        m = self.module(modname)
        if cname not in m.classes:
            raise AnalysisError(f"class not found: {fq}")
        return m.classes[cname]

    def func(self, fq) -> Func:
        """fq = 'dagrt.language.CodeBuilder._add_statement' (longest module prefix)."""
        parts = fq.split(".")
        for i in range(len(parts) - 1, 0, -1):
            modname = ".".join(parts[:i])
            if modname in self.modules:
                qn = ".".join(parts[i:])
                m = self.modules[modname]
                if qn in m.functions:
                    return m.functions[qn]
                # alias inside class
                if len(parts[i:]) == 2 and parts[i] in m.classes:
                    c = m.classes[parts[i]]
                    if parts[i + 1] in c.methods:
                        return c.methods[parts[i + 1]]
                raise AnalysisError(f"function not found: {fq}")
        raise AnalysisError(f"function not found: {fq}")

    def has_func(self, fq):
        try:
            self.func(fq)
            return True
        except AnalysisError:
            return False

    def resolve_import(self, modname, attr):
        """(module name, attr) -> Module | Class | Func | ast.expr | None"""
        seen = set()
        while True:
            if (modname, attr) in seen:
                return None
            seen.add((modname, attr))
            if attr is None:
                return self.modules.get(modname)
            m = self.modules.get(modname)
            if m is None:
                sub = self.modules.get(f"{modname}.{attr}")
                return sub
            if attr in m.classes:
                return m.classes[attr]
            if attr in m.functions:
                return m.functions[attr]
            if attr in m.imports:
                modname, attr = m.imports[attr]
                continue
            if attr in m.assigns:
                v = m.assigns[attr]
                if isinstance(v, ast.Name) and (v.id in m.classes or v.id in m.functions
                                                or v.id in m.imports):
                    attr = v.id
                    continue
                return v
            sub = self.modules.get(f"{modname}.{attr}")
            return sub

    def resolve_name(self, scope, name):
        """Resolve a bare name in the scope of a Func or Module."""
        f = scope if isinstance(scope, Func) else None
        m = scope.module if isinstance(scope, Func) else scope
        while f is not None:
            if name in f.nested:
                return f.nested[name]
            if name in f.local_imports:
                return self.resolve_import(*f.local_imports[name])
            f = f.parent
        if name in m.classes:
            return m.classes[name]
        if name in m.functions:
            return m.functions[name]
        if name in m.imports:
            return self.resolve_import(*m.imports[name])
        if name in m.assigns:
            return m.assigns[name]
        return None

    def resolve_expr(self, scope, node):
        """Resolve Name / dotted Attribute to a model entity if possible."""
        if isinstance(node, ast.Name):
            return self.resolve_name(scope, node.id)
        if isinstance(node, ast.Attribute):
            base = self.resolve_expr(scope, node.value)
            if isinstance(base, Module):
                return self.resolve_import(base.name, node.attr)
            if isinstance(base, Class):
                hit = self.lookup(base, node.attr)
                return hit[1] if hit else None
        return None

    # }}}

    # {{{ class hierarchy

    def mro(self, c: Class):
        if c in self._mro_cache:
            return self._mro_cache[c]
        seqs = []
        for b in c.bases:
            if isinstance(b, Class):
                seqs.append(list(self.mro(b)))
        seqs.append([b for b in c.bases if isinstance(b, Class)])
        res = [c]
        seqs = [s for s in seqs if s]
        while seqs:
            for s in seqs:
                cand = s[0]
                if not any(cand in t[1:] for t in seqs):
                    break
            else:
                raise AnalysisError(f"inconsistent MRO for {c.fq}")
            res.append(cand)
            seqs = [[x for x in s if x is not cand] for s in seqs]
            seqs = [s for s in seqs if s]
        self._mro_cache[c] = res
        return res

    def lookup(self, c: Class, name, after: Class | None = None):
        """Find attribute *name* along the MRO of *c* (optionally strictly after
        class *after*, as ``super()`` inside *after* would)."""
        mro = self.mro(c)
        if after is not None:
            if after not in mro:
                return None
            mro = mro[mro.index(after) + 1:]
        for k in mro:
            if name in k.methods:
                return k, k.methods[name]
            if name in k.attrs:
                return k, k.attrs[name]
        return None

    def method(self, c: Class, name, after=None) -> Func | None:
        hit = self.lookup(c, name, after)
        if hit and isinstance(hit[1], Func):
            return hit[1]
        return None

    def is_subclass(self, c: Class, base: Class):
        return base in self.mro(c)

    def subclasses(self, base: Class, modules=None):
        out = []
        for m in self.modules.values():
            if modules is not None and m.name not in modules:
                continue
            for c in m.classes.values():
                if c is not base and self.is_subclass(c, base):
                    out.append(c)
        return sorted(out, key=lambda c: (c.module.name, c.node.lineno))

    # }}}

    def repo_modules(self):
        return [m for m in self.modules.values() if not m.trusted]

    def all_funcs(self, trusted=False):
        for m in self.modules.values():
            if m.trusted and not trusted:
                continue
            yield from m.functions.values()

    def digests(self, trusted_only=False):
        return {m.relpath: m.digest for m in self.modules.values()
                if (m.trusted or not trusted_only)}


def const_str(node):
    if isinstance(node, ast.Constant) and isinstance(node.value, str):
        return node.value
    # intern("...")
    if isinstance(node, ast.Call) and isinstance(node.func, ast.Name) \
            and node.func.id == "intern" and node.args:
        return const_str(node.args[0])
    return None
