"""Case tables of small case-analysis functions, by abstract interpretation over
a free term algebra.

The abstract domain is the set of uninterpreted *terms* listed below; the
abstract semantics of an expression builds a term (attribute access, a call
of an unknown function or constructor) or decides a test from the shape of
its operands (`x is None`, truthiness of a tuple, `isinstance` against the
classes a record says it has).  A test that the terms do not decide splits
the case in two and the answer is remembered as a fact of that case, so the
analysis is path-sensitive and its result is a finite table:
case (argument terms + facts)  ->  ("return", term) | ("raise", name).
Loops are unrolled only over tuples that are concrete in the abstract input;
helpers and recursion of the repository are interpreted in place to a bounded
depth; anything else (a loop over an abstract sequence, `with`, `try`) ends
the analysis of that clause with exit 2.  No part of the analysed program is
executed and no solver is involved: terms are never given values.

Terms
    ("none",)                       None
    ("const", value)                a literal (True, 0, "x", ())
    ("obj", name)                   an opaque object that is not None
    ("rec", name, ((field, term), ...))   an object with known fields and .copy(**kw)
    ("tuple", (term, ...))          a concrete tuple / list
    ("attr", term, name)            attribute of an opaque object
    ("item", term, index)           element of an opaque sequence
    ("call", func_term, (args...), ((kw, term)...))
    ("name", dotted)                a global the function refers to (class, function)
    ("fn", id)                      a function / lambda defined inside
    ("bool", True | False)          result of a decided test
    ("op", text, (terms...))        any other expression of terms
"""

from __future__ import annotations

import ast

from .match import dotted
from .srcmodel import AnalysisError, Func

NONE = ("none",)


class _Return(Exception):
    def __init__(self, value, facts):
        self.value, self.facts = value, facts


class _Raise(Exception):
    def __init__(self, name, facts):
        self.name, self.facts = name, facts


class _Fork(Exception):
    """An undecided question: re-run the world once with each answer."""
    def __init__(self, key):
        self.key = key


def is_none(t):
    return t == NONE


def rec(name, **fields):
    return ("rec", name, tuple(sorted(fields.items())))


def rec_get(t, field):
    for k, v in t[2]:
        if k == field:
            return v
    return None


def rec_with(t, **kw):
    d = dict(t[2])
    d.update(kw)
    return ("rec", t[1], tuple(sorted(d.items())))


class Evaluator:
    def __init__(self, P, max_depth=6, stubs=None):
        self.P = P
        self.max_depth = max_depth
        self.stubs = stubs or {}          # "self.method" / "function" -> callable(args, kws) -> term

    # {{{ driver

    def outcomes(self, func: Func, args: dict, facts=None):
        """All outcomes of func for the given argument terms:
        [(("return", term) | ("raise", name), facts dict)]."""
        out = []
        pending = [dict(facts or {})]
        seen = set()
        while pending:
            fx = pending.pop()
            key = tuple(sorted(fx.items(), key=repr))
            if key in seen:
                continue
            seen.add(key)
            if len(seen) > 4000:
                raise AnalysisError(f"{func.qualname}: too many cases")
            try:
                r = self._call(func, args, dict(fx), 0)
                out.append(r)
            except _Fork as fk:
                for ans in (True, False):
                    f2 = dict(fx)
                    f2[fk.key] = ans
                    pending.append(f2)
        return out

    def _call(self, func, args, facts, depth):
        env = dict(args)
        try:
            self._block(func.node.body, env, facts, func, depth)
        except _Return as r:
            return ("return", r.value), r.facts
        except _Raise as r:
            return ("raise", r.name), r.facts
        return ("return", NONE), facts

    # }}}

    # {{{ statements

    def _block(self, stmts, env, facts, func, depth):
        for s in stmts:
            self._stmt(s, env, facts, func, depth)

    def _stmt(self, s, env, facts, func, depth):
        if isinstance(s, ast.Expr):
            if not (isinstance(s.value, ast.Constant)):
                self.ev(s.value, env, facts, func, depth)
            return
        if isinstance(s, ast.Pass):
            return
        if isinstance(s, ast.Return):
            v = self.ev(s.value, env, facts, func, depth) if s.value is not None else NONE
            raise _Return(v, facts)
        if isinstance(s, ast.Raise):
            name = "Exception"
            if s.exc is not None:
                e = s.exc.func if isinstance(s.exc, ast.Call) else s.exc
                name = (dotted(e) or "Exception").split(".")[-1]
            raise _Raise(name, facts)
        if isinstance(s, ast.Assert):
            if self.truth(self.ev(s.test, env, facts, func, depth), facts) is False:
                raise _Raise("AssertionError", facts)
            return
        if isinstance(s, ast.Assign):
            v = self.ev(s.value, env, facts, func, depth)
            for t in s.targets:
                self._bind(t, v, env, facts)
            return
        if isinstance(s, ast.AnnAssign):
            if s.value is not None:
                self._bind(s.target, self.ev(s.value, env, facts, func, depth), env, facts)
            return
        if isinstance(s, ast.AugAssign):
            cur = self.ev(ast.copy_location(_load(s.target), s.target), env, facts, func, depth)
            v = self.ev(s.value, env, facts, func, depth)
            self._bind(s.target, ("op", type(s.op).__name__, (cur, v)), env, facts)
            return
        if isinstance(s, ast.If):
            t = self.truth(self.ev(s.test, env, facts, func, depth), facts)
            self._block(s.body if t else s.orelse, env, facts, func, depth)
            return
        if isinstance(s, (ast.FunctionDef, ast.AsyncFunctionDef)):
            env[s.name] = ("fn", s.name)
            return
        if isinstance(s, ast.Import):
            for a in s.names:
                env[(a.asname or a.name).split(".")[0]] = ("name", a.name)
            return
        if isinstance(s, ast.ImportFrom):
            for a in s.names:
                env[a.asname or a.name] = ("name", a.name)
            return
        if isinstance(s, ast.For):
            it = self.ev(s.iter, env, facts, func, depth)
            if it[0] != "tuple":
                raise AnalysisError(f"{func.qualname}: loop over a sequence that is not concrete here "
                                    f"({ast.unparse(s.iter)[:40]})")
            for x in it[1]:
                self._bind(s.target, x, env, facts)
                try:
                    self._block(s.body, env, facts, func, depth)
                except _Continue:
                    continue
                except _Break:
                    break
            else:
                self._block(s.orelse, env, facts, func, depth)
            return
        if isinstance(s, ast.While):
            n = 0
            while self.truth(self.ev(s.test, env, facts, func, depth), facts):
                n += 1
                if n > 16:
                    raise AnalysisError(f"{func.qualname}: while loop does not end on abstract values")
                try:
                    self._block(s.body, env, facts, func, depth)
                except _Continue:
                    continue
                except _Break:
                    break
            return
        if isinstance(s, ast.Continue):
            raise _Continue()
        if isinstance(s, ast.Break):
            raise _Break()
        raise AnalysisError(f"{func.qualname}: statement kind {type(s).__name__} not understood")

    def _bind(self, target, v, env, facts):
        if isinstance(target, ast.Name):
            env[target.id] = v
        elif isinstance(target, (ast.Tuple, ast.List)):
            n = len(target.elts)
            if v[0] == "tuple":
                if len(v[1]) != n:
                    raise _Raise("ValueError", facts)
                for t, x in zip(target.elts, v[1]):
                    self._bind(t, x, env, facts)
            else:
                for i, t in enumerate(target.elts):
                    self._bind(t, ("item", v, i), env, facts)
        # attribute / subscript stores are ignored (no object state is modelled)

    # }}}

    # {{{ expressions

    def ask(self, key, facts):
        if key in facts:
            return facts[key]
        raise _Fork(key)

    def truth(self, v, facts):
        if v[0] == "bool":
            return v[1]
        if v[0] == "none":
            return False
        if v[0] == "const":
            return bool(v[1])
        if v[0] == "tuple":
            return len(v[1]) > 0
        if v[0] in ("obj", "rec", "fn", "name"):
            return True
        if _constructed(v):
            return True                       # a constructed object
        return self.ask(("truth", v), facts)

    def ev(self, e, env, facts, func, depth):
        if e is None:
            return NONE
        if isinstance(e, ast.Constant):
            return NONE if e.value is None else ("const", e.value)
        if isinstance(e, ast.Name):
            if e.id in env:
                return env[e.id]
            if e.id == "None":
                return NONE
            if e.id in ("True", "False"):
                return ("const", e.id == "True")
            return ("name", e.id)
        if isinstance(e, (ast.Tuple, ast.List)):
            out = []
            for x in e.elts:
                if isinstance(x, ast.Starred):
                    v = self.ev(x.value, env, facts, func, depth)
                    if v[0] != "tuple":
                        return ("op", "starred", (v,))
                    out.extend(v[1])
                else:
                    out.append(self.ev(x, env, facts, func, depth))
            return ("tuple", tuple(out))
        if isinstance(e, ast.Attribute):
            b = self.ev(e.value, env, facts, func, depth)
            return self.getattr(b, e.attr, facts)
        if isinstance(e, ast.Subscript):
            b = self.ev(e.value, env, facts, func, depth)
            if isinstance(e.slice, ast.Slice):
                lo = self.ev(e.slice.lower, env, facts, func, depth) if e.slice.lower is not None else None
                hi = self.ev(e.slice.upper, env, facts, func, depth) if e.slice.upper is not None else None
                st = self.ev(e.slice.step, env, facts, func, depth) if e.slice.step is not None else None
                if b[0] == "tuple" and all(x is None or x[0] == "const" for x in (lo, hi, st)):
                    sl = slice(*(None if x is None else x[1] for x in (lo, hi, st)))
                    return ("tuple", b[1][sl])
                return ("op", "slice", (b,))
            i = self.ev(e.slice, env, facts, func, depth)
            if b[0] == "tuple" and i[0] == "const" and isinstance(i[1], int):
                if -len(b[1]) <= i[1] < len(b[1]):
                    return b[1][i[1]]
                raise _Raise("IndexError", facts)
            return ("item", b, i[1] if i[0] == "const" else i)
        if isinstance(e, ast.UnaryOp) and isinstance(e.op, ast.Not):
            return ("bool", not self.truth(self.ev(e.operand, env, facts, func, depth), facts))
        if isinstance(e, ast.BoolOp):
            v = None
            for x in e.values:
                v = self.ev(x, env, facts, func, depth)
                t = self.truth(v, facts)
                if isinstance(e.op, ast.And) and not t:
                    return v
                if isinstance(e.op, ast.Or) and t:
                    return v
            return v
        if isinstance(e, ast.Compare) and len(e.ops) == 1:
            l = self.ev(e.left, env, facts, func, depth)
            r = self.ev(e.comparators[0], env, facts, func, depth)
            return ("bool", self.compare(l, e.ops[0], r, facts))
        if isinstance(e, ast.IfExp):
            t = self.truth(self.ev(e.test, env, facts, func, depth), facts)
            return self.ev(e.body if t else e.orelse, env, facts, func, depth)
        if isinstance(e, ast.Lambda):
            return ("fn", f"lambda@{ast.unparse(e)[:40]}")
        if isinstance(e, ast.Call):
            return self.call(e, env, facts, func, depth)
        if isinstance(e, ast.BinOp):
            l = self.ev(e.left, env, facts, func, depth)
            r = self.ev(e.right, env, facts, func, depth)
            if isinstance(e.op, ast.Add) and l[0] == "tuple" and r[0] == "tuple":
                return ("tuple", l[1] + r[1])
            return ("op", type(e.op).__name__, (l, r))
        if isinstance(e, (ast.ListComp, ast.GeneratorExp)) and len(e.generators) == 1:
            g = e.generators[0]
            it = self.ev(g.iter, env, facts, func, depth)
            if it[0] == "tuple":
                out = []
                for x in it[1]:
                    sub = dict(env)
                    self._bind(g.target, x, sub, facts)
                    if all(self.truth(self.ev(c, sub, facts, func, depth), facts) for c in g.ifs):
                        out.append(self.ev(e.elt, sub, facts, func, depth))
                return ("tuple", tuple(out))
        return ("op", ast.unparse(e)[:60], ())

    def getattr(self, b, attr, facts):
        if b[0] == "none":
            raise _Raise("AttributeError", facts)
        if b[0] == "rec":
            v = rec_get(b, attr)
            if v is not None:
                return v
            if rec_get(b, "@strict") is not None:
                raise _Raise("AttributeError", facts)      # a record without that field
            return ("attr", b, attr)
        return ("attr", b, attr)

    def compare(self, l, op, r, facts):
        if isinstance(op, (ast.Is, ast.IsNot)):
            want = isinstance(op, ast.Is)
            if l == r:
                return want
            def definite(t):
                return t[0] in ("none", "obj", "rec", "const", "tuple", "fn", "name") or _constructed(t)
            if definite(l) and definite(r):
                return (l == r) == want
            return self.ask(("is", ) + tuple(sorted((l, r), key=repr)), facts) == want
        if isinstance(op, (ast.Eq, ast.NotEq)):
            want = isinstance(op, ast.Eq)
            if l == r:
                return want
            if l[0] in ("const", "none") and r[0] in ("const", "none"):
                return (l == r) == want
            if {l[0], r[0]} <= {"const", "none", "tuple"} and (l[0] == "tuple") != (r[0] == "tuple"):
                return not want
            return self.ask(("eq",) + tuple(sorted((l, r), key=repr)), facts) == want
        if isinstance(op, (ast.In, ast.NotIn)):
            want = isinstance(op, ast.In)
            if r[0] == "tuple" and all(x[0] in ("const", "none", "obj") for x in r[1]) \
                    and l[0] in ("const", "none", "obj"):
                return (l in r[1]) == want
            return self.ask(("in", l, r), facts) == want
        if l[0] == "const" and r[0] == "const":
            a, b = l[1], r[1]
            try:
                return {ast.Lt: a < b, ast.LtE: a <= b, ast.Gt: a > b, ast.GtE: a >= b}[type(op)]
            except Exception:
                pass
        return self.ask((type(op).__name__, l, r), facts)

    def call(self, e, env, facts, func, depth):
        fn = e.func
        # method calls understood on terms
        if isinstance(fn, ast.Attribute):
            b = self.ev(fn.value, env, facts, func, depth)
            args = [self.ev(a, env, facts, func, depth) for a in e.args if not isinstance(a, ast.Starred)]
            kws = {k.arg: self.ev(k.value, env, facts, func, depth) for k in e.keywords if k.arg}
            if b[0] == "rec" and fn.attr == "copy" and not args:
                return rec_with(b, **kws)
            if b[0] == "none":
                raise _Raise("AttributeError", facts)
            if isinstance(fn.value, ast.Name) and f"{fn.value.id}.{fn.attr}" in self.stubs:
                return self.stubs[f"{fn.value.id}.{fn.attr}"](args, kws)
            # a method of the same class of the repository (self.helper(...))
            if isinstance(fn.value, ast.Name) and fn.value.id == "self" and func.cls is not None:
                m = self.P.method(func.cls, fn.attr)
                if m is not None and not m.module.trusted and depth < self.max_depth:
                    static = any(dotted(d_) == "staticmethod" for d_ in m.node.decorator_list)
                    return self._inline(m, args if static else [b] + args, kws, facts, depth)
            return ("call", ("attr", b, fn.attr), tuple(args), tuple(sorted(kws.items())))
        f_t = self.ev(fn, env, facts, func, depth)
        args = []
        for a in e.args:
            if isinstance(a, ast.Starred):
                v = self.ev(a.value, env, facts, func, depth)
                if v[0] == "tuple":
                    args.extend(v[1])
                else:
                    args.append(("op", "starred", (v,)))
            else:
                args.append(self.ev(a, env, facts, func, depth))
        kws = {k.arg: self.ev(k.value, env, facts, func, depth) for k in e.keywords if k.arg}
        name = f_t[1] if f_t[0] in ("name", "fn") else None
        if name == "isinstance" and len(args) == 2:
            return ("bool", self.isinstance_(args[0], args[1], facts))
        if name in ("reversed", "tuple", "list") and len(args) == 1 and args[0][0] == "tuple":
            return ("tuple", tuple(reversed(args[0][1])) if name == "reversed" else args[0][1])
        if name == "len" and len(args) == 1 and args[0][0] == "tuple":
            return ("const", len(args[0][1]))
        if name in ("any", "all") and len(args) == 1 and args[0][0] == "tuple":
            ts = [self.truth(x, facts) for x in args[0][1]]
            return ("bool", any(ts) if name == "any" else all(ts))
        if name == "bool" and len(args) == 1:
            return ("bool", self.truth(args[0], facts))
        if name == "enumerate" and len(args) == 1 and args[0][0] == "tuple":
            return ("tuple", tuple(("tuple", (("const", i), x)) for i, x in enumerate(args[0][1])))
        if name in self.stubs:
            return self.stubs[name](args, kws)
        # a function of the repository: follow it
        callee = None
        if f_t[0] == "fn" and func is not None:
            g = func
            while g is not None and callee is None:
                callee = g.nested.get(f_t[1])
                g = g.parent
        elif f_t[0] == "name":
            try:
                t = self.P.resolve_name(func, f_t[1])
            except Exception:
                t = None
            if isinstance(t, Func) and not t.module.trusted:
                callee = t
        if callee is not None and depth < self.max_depth:
            return self._inline(callee, args, kws, facts, depth)
        return ("call", f_t, tuple(args), tuple(sorted(kws.items())))

    def _inline(self, callee, args, kws, facts, depth):
        params = list(callee.params)
        env = {}
        a = callee.node.args
        defaults = dict(zip(params[len(params) - len(a.defaults):], a.defaults))
        for i, p_ in enumerate(params):
            if i < len(args):
                env[p_] = args[i]
            elif p_ in kws:
                env[p_] = kws[p_]
            elif p_ in defaults:
                env[p_] = self.ev(defaults[p_], {}, facts, callee, depth + 1)
            else:
                raise AnalysisError(f"{callee.qualname}: argument '{p_}' not bound in an inlined call")
        try:
            self._block(callee.node.body, env, facts, callee, depth + 1)
        except _Return as r:
            return r.value
        return NONE

    def isinstance_(self, v, cls_t, facts):
        names = [x[1] for x in cls_t[1]] if cls_t[0] == "tuple" else [cls_t[1] if cls_t[0] == "name" else None]
        names = [n.split(".")[-1] if isinstance(n, str) else n for n in names]
        if v[0] == "none":
            return "NoneType" in names
        if v[0] == "rec":
            mro = rec_get(v, "@classes")
            if mro is not None and mro[0] == "tuple":
                have = {x[1] for x in mro[1]}
                return any(n in have for n in names)
        if v[0] == "call" and v[1][0] == "name":
            return v[1][1].split(".")[-1] in names
        if v[0] == "const":
            return type(v[1]).__name__ in names
        return self.ask(("isinstance", v, tuple(names)), facts)

    # }}}


def _constructed(t):
    """A call of a class (by the naming convention of the analysed code: a
    capitalised name) - an object, not None and true.  The value of any other
    call is unknown."""
    if t[0] != "call" or t[1][0] != "name":
        return False
    n = t[1][1].split(".")[-1]
    return n[:1].isupper()


class _Continue(Exception):
    pass


class _Break(Exception):
    pass


def _load(target):
    t = ast.parse(ast.unparse(target), mode="eval").body
    return t


def show(t, depth=0):
    """Readable rendering of a term."""
    if t[0] == "none":
        return "None"
    if t[0] == "const":
        return repr(t[1])
    if t[0] in ("obj", "name", "fn"):
        return str(t[1])
    if t[0] == "rec":
        return f"{t[1]}'"
    if t[0] == "tuple":
        return "(" + ", ".join(show(x) for x in t[1]) + ")"
    if t[0] == "attr":
        return f"{show(t[1])}.{t[2]}"
    if t[0] == "item":
        return f"{show(t[1])}[{t[2]}]"
    if t[0] == "call":
        a = [show(x) for x in t[2]] + [f"{k}={show(v)}" for k, v in t[3]]
        return f"{show(t[1])}({', '.join(a)})"
    if t[0] == "bool":
        return str(t[1])
    return f"<{t[1]}>"
