"""Unordered-iteration taint analysis.

Order taint
-----------
An expression is *order-tainted* (T) when the order in which its elements are
produced is not determined by the program's input description: sets and
frozensets, anything derived from iterating one without ``sorted``, dicts
filled while iterating one, lists built by appending in such a loop, strings
joined from such a sequence.  ``sorted(...)``, ``min/max/len/sum/any/all`` and
membership tests remove the taint.

Sinks
-----
An iteration (``for`` loop or comprehension) over a tainted value is a finding
when its body, directly or through resolved callees, reaches an
order-sensitive sink: emission of generated text, allocation of generated
names / statement ids, or construction of the phase map handed to a generator.
A tainted value passed directly to such a sink (argument of an emit call,
``str.join`` into emitted text, ``DAGCode(<tainted dict>)``) is a finding too.

The analysis is interprocedural through return summaries, parameter
summaries (call sites passing tainted arguments) and per-class attribute
summaries (``self.x = <tainted>``).
"""

from __future__ import annotations

import ast
import re

from .match import dotted, norm
from .srcmodel import Class, Func, Module, Program

SET_CTORS = {"set", "frozenset"}
CLEAN_FUNCS = {"sorted", "len", "min", "max", "sum", "any", "all", "bool", "natsorted",
               "isinstance", "hash", "repr_sorted"}
SEQ_FUNCS = {"list", "tuple", "iter", "enumerate", "reversed", "zip", "deque", "dict",
             "chain", "map", "filter"}
SET_METHODS = {"union", "intersection", "difference", "symmetric_difference", "copy"}

# fields documented / normalised as unordered containers
# kind tables are filled in the order inference visits statements (C14 guarantees the
# mapping, not its insertion order)
UNORDERED_FIELDS = {"depends_on", "statements", "global_table", "per_phase_table", "phases"}

# tables of tables: the inner tables are filled in visiting order as well
NESTED_UNORDERED_FIELDS = {"per_phase_table"}

EMIT_RE = re.compile(r"^(_?emit.*|emitter|declaration_emitter|emit)$")
ALLOC_NAMES = {
    "var_name_gen", "stmt_id_gen", "make_unique_fortran_name",
    "get_or_make_name_for_key", "get_mapped_identifier_without_key",
    "name_global", "name_local", "name_function", "name_refcount",
    "fresh_var_name", "fresh_var", "next_statement_id",
}
NAME_MANAGER_ATTRS = {"name_manager", "_name_manager"}
PHASE_MAP_CTORS = {"DAGCode", "DAGCode.from_phases_list"}


IDENTIFYING_ATTRS = {"id", "name", "identifier"}


def key_is_total(call, scope=None):
    """Does the key= of this sorted() call tell any two items apart?  Accepted:
    no key; the item's name / id / identifier; the first component of an item
    (a dict key from .items()); str / repr of the item; a tuple holding one of
    these or the whole item.  A key that is the name of a function defined in
    *scope* (the enclosing function's node) is looked at like a lambda."""
    key = next((k.value for k in call.keywords if k.arg == "key"), None)
    if key is None:
        return True
    if isinstance(key, ast.Name) and scope is not None:
        defs = [n for n in ast.walk(scope) if isinstance(n, ast.FunctionDef) and n.name == key.id]
        if len(defs) == 1 and len(defs[0].args.args) == 1:
            fd = defs[0]
            p0 = fd.args.args[0].arg
            # names unpacked from the item: `a, b = item` makes `a` the first component
            first = {p0: "item"}
            for s_ in fd.body:
                if isinstance(s_, ast.Assign) and len(s_.targets) == 1 \
                        and isinstance(s_.targets[0], ast.Tuple) and dotted(s_.value) == p0 \
                        and s_.targets[0].elts and isinstance(s_.targets[0].elts[0], ast.Name):
                    first[s_.targets[0].elts[0].id] = "first"
            rets = [r.value for r in ast.walk(fd) if isinstance(r, ast.Return) and r.value is not None]

            def total_named(x):
                if isinstance(x, ast.Name) and x.id in first:
                    return True
                if isinstance(x, ast.Subscript) and dotted(x.value) == p0 \
                        and isinstance(x.slice, ast.Constant) and x.slice.value == 0:
                    return True
                if isinstance(x, ast.Attribute) and dotted(x.value) == p0 and x.attr in IDENTIFYING_ATTRS:
                    return True
                if isinstance(x, ast.Call) and dotted(x.func) in ("str", "repr") and len(x.args) == 1:
                    return total_named(x.args[0])
                if isinstance(x, ast.Tuple):
                    return any(total_named(y) for y in x.elts)
                return False
            return bool(rets) and all(total_named(r) for r in rets)
    d = dotted(key)
    if d in ("str", "repr"):
        return True
    if isinstance(key, ast.Call) and dotted(key.func) in ("itemgetter", "operator.itemgetter") \
            and len(key.args) == 1 and isinstance(key.args[0], ast.Constant) and key.args[0].value == 0:
        return True
    if isinstance(key, ast.Call) and dotted(key.func) in ("attrgetter", "operator.attrgetter") \
            and len(key.args) == 1 and isinstance(key.args[0], ast.Constant) \
            and key.args[0].value in IDENTIFYING_ATTRS:
        return True
    if isinstance(key, ast.Lambda) and len(key.args.args) == 1:
        p = key.args.args[0].arg

        def total(x):
            if isinstance(x, ast.Name) and x.id == p:
                return True
            if isinstance(x, ast.Attribute) and isinstance(x.value, ast.Name) and x.value.id == p \
                    and x.attr in IDENTIFYING_ATTRS:
                return True
            if isinstance(x, ast.Subscript) and isinstance(x.value, ast.Name) and x.value.id == p \
                    and isinstance(x.slice, ast.Constant) and x.slice.value == 0:
                return True
            if isinstance(x, ast.Call) and dotted(x.func) in ("str", "repr") and len(x.args) == 1:
                return total(x.args[0])
            if isinstance(x, ast.Tuple):
                return any(total(y) for y in x.elts)
            return False
        return total(key.body)
    return False


class Finding:
    def __init__(self, func, node, what, sink, chain=""):
        self.func = func
        self.node = node
        self.what = what
        self.sink = sink
        self.chain = chain


class Taint:
    def __init__(self, P: Program, modules=None):
        self.P = P
        self.modules = [m for m in P.repo_modules()
                        if modules is None or m.name in modules]
        self.funcs = [f for m in self.modules for f in m.functions.values()]
        self.ret_taint: dict[Func, bool] = {}
        self.param_taint: dict[Func, set] = {}
        self.attr_taint: dict[tuple, bool] = {}    # (class fq, attr) -> tainted
        # a table whose *values* are sequences built in iteration order of an unordered
        # collection: returned by a function / kept in an attribute
        self.ret_values_taint: dict[Func, bool] = {}
        self.attr_values_taint: dict[tuple, bool] = {}
        self.sink_funcs: dict[Func, str] = {}      # functions that (transitively) sink
        self.findings: list[Finding] = []
        self.examined = []                         # (func, node, verdict text)
        self._collector_classes = None
        self._local_cache = {}

    # {{{ class facts

    def collector_classes(self):
        if self._collector_classes is None:
            out = set()
            bases = []
            for fq in ("pymbolic.mapper.collector.Collector", "pymbolic.mapper.Collector",
                       "pymbolic.mapper.dependency.DependencyMapper"):
                try:
                    bases.append(self.P.cls(fq))
                except Exception:
                    pass
            for m in self.P.modules.values():
                for c in m.classes.values():
                    if any(self.P.is_subclass(c, b) for b in bases):
                        out.add(c)
            self._collector_classes = out
        return self._collector_classes

    # }}}

    # {{{ local taint of names inside one function

    def local_taint(self, f: Func):
        """Names (locals and 'self.x' strings) that are order-tainted anywhere
        in f.  Flow-insensitive fixpoint."""
        tainted = set()
        for i, p in enumerate(f.params):
            if i in self.param_taint.get(f, ()):
                tainted.add(p)
        changed = True
        stmts = [n for n in ast.walk(f.node)]
        while changed:
            changed = False
            for n in stmts:
                new = set()
                if isinstance(n, ast.Assign):
                    if self.is_tainted(n.value, f, tainted):
                        for t in n.targets:
                            new |= self._target_names(t)
                elif isinstance(n, ast.AugAssign):
                    if self.is_tainted(n.value, f, tainted) and not self._is_set_name(n.target, f, tainted):
                        new |= self._target_names(n.target)
                    elif self.is_tainted(n.value, f, tainted):
                        new |= self._target_names(n.target)
                elif isinstance(n, (ast.For, ast.AsyncFor)):
                    if self.is_tainted(n.iter, f, tainted):
                        # things built in this loop in iteration order
                        for b in n.body:
                            new |= self._order_built(b, f, tainted)
                elif isinstance(n, ast.withitem):
                    pass
                for x in new:
                    if x not in tainted:
                        tainted.add(x)
                        changed = True
        return tainted

    def _outer_tainted(self, f, tainted):
        """tainted names of f together with those of the functions it is nested in
        (a closure reads the tables of its enclosing function)"""
        out = set(tainted)
        g = getattr(f, "parent", None)
        while g is not None:
            out |= self.local_taint(g) if hasattr(self, "local_taint") else set()
            g = getattr(g, "parent", None)
        return out

    def _target_names(self, t):
        out = set()
        if isinstance(t, ast.Name):
            out.add(t.id)
        elif isinstance(t, ast.Attribute):
            d = dotted(t)
            if d:
                out.add(d)
        elif isinstance(t, (ast.Tuple, ast.List)):
            for e in t.elts:
                out |= self._target_names(e)
        return out

    def _is_set_name(self, t, f, tainted):
        return False

    @staticmethod
    def _counts(value, table):
        """len(<table>) (or the table's size under another spelling) in a value stored
        into the table: the stored number is the position at which the key came"""
        return any(isinstance(c, ast.Call) and dotted(c.func) == "len" and c.args
                   and dotted(c.args[0]) == table for c in ast.walk(value))

    def _order_built(self, stmt, f, tainted):
        """Names of sequences / dicts that receive elements in iteration order
        inside a tainted loop body."""
        out = set()
        for x in ast.walk(stmt):
            if isinstance(x, (ast.FunctionDef, ast.Lambda)):
                continue
            if isinstance(x, ast.Call) and isinstance(x.func, ast.Attribute) \
                    and x.func.attr in ("append", "extend", "insert", "appendleft",
                                        "extendleft", "setdefault"):
                d = dotted(x.func.value)
                if d:
                    out.add(d)
                if d and x.func.attr == "setdefault" and len(x.args) == 2 and self._counts(x.args[1], d):
                    out.add(d + "@rank")     # values number the keys in the order they came
                # table[key].append(v) / table.setdefault(key, []).append(v): the *values* of
                # the table are sequences built in iteration order
                inner = x.func.value
                if x.func.attr != "setdefault":
                    base = None
                    if isinstance(inner, ast.Subscript):
                        base = dotted(inner.value)
                    elif isinstance(inner, ast.Call) and isinstance(inner.func, ast.Attribute) \
                            and inner.func.attr in ("setdefault", "get"):
                        base = dotted(inner.func.value)
                    if base:
                        out.add(base + "@values")
            if isinstance(x, ast.Assign):
                for t in x.targets:
                    if isinstance(t, ast.Subscript):
                        d = dotted(t.value)
                        if d:
                            out.add(d)       # dict filled in tainted order
                        if d and self._counts(x.value, d):
                            out.add(d + "@rank")
            if isinstance(x, ast.AugAssign) and isinstance(x.op, ast.Add):
                d = dotted(x.target)
                if d:
                    out.add(d)               # list/str built by +=
        return out

    # }}}

    # {{{ expression taint

    def is_tainted(self, e, f: Func, tainted) -> bool:
        P = self.P
        if e is None:
            return False
        if isinstance(e, (ast.Set, ast.SetComp)):
            return True
        if isinstance(e, ast.Name):
            return e.id in tainted
        if isinstance(e, ast.Attribute):
            d = dotted(e)
            if d and d in tainted:
                return True
            if e.attr in UNORDERED_FIELDS:
                # phase.depends_on / stmt.depends_on / phase.statements
                return True
            if d and d.startswith("self.") and f.cls is not None:
                for c in P.mro(f.cls):
                    if self.attr_taint.get((c.fq, e.attr)):
                        return True
                for c in P.subclasses(f.cls) if f.cls else ():
                    if self.attr_taint.get((c.fq, e.attr)):
                        return True
            return False
        if isinstance(e, ast.BinOp):
            if isinstance(e.op, (ast.BitOr, ast.BitAnd, ast.Sub, ast.BitXor)):
                return self.is_tainted(e.left, f, tainted) or self.is_tainted(e.right, f, tainted)
            if isinstance(e.op, ast.Add):
                return self.is_tainted(e.left, f, tainted) or self.is_tainted(e.right, f, tainted)
            if isinstance(e.op, ast.Mod):
                return self.is_tainted(e.right, f, tainted)
            return False
        if isinstance(e, ast.IfExp):
            return self.is_tainted(e.body, f, tainted) or self.is_tainted(e.orelse, f, tainted)
        if isinstance(e, (ast.ListComp, ast.GeneratorExp, ast.DictComp)):
            return any(self.is_tainted(g.iter, f, tainted) for g in e.generators)
        if isinstance(e, ast.Starred):
            return self.is_tainted(e.value, f, tainted)
        if isinstance(e, (ast.Tuple, ast.List)):
            return any(isinstance(x, ast.Starred) and self.is_tainted(x.value, f, tainted)
                       for x in e.elts)
        if isinstance(e, ast.Subscript):
            # a slice of a tainted sequence keeps the taint; an element does not
            if isinstance(e.slice, ast.Slice):
                return self.is_tainted(e.value, f, tainted)
            if isinstance(e.value, ast.Attribute) and e.value.attr in NESTED_UNORDERED_FIELDS:
                return True
            dv = dotted(e.value)
            if dv and dv + "@values" in tainted:
                return True
            return False
        if isinstance(e, ast.JoinedStr):
            return any(isinstance(v, ast.FormattedValue) and self.is_tainted(v.value, f, tainted)
                       for v in e.values)
        if isinstance(e, ast.Call):
            fn = e.func
            d = dotted(fn)
            if isinstance(fn, ast.Name):
                if fn.id in SET_CTORS:
                    return True
                if fn.id in ("sorted", "natsorted") and not (
                        key_is_total(e, getattr(f, "node", None))
                        or key_is_total(e, getattr(getattr(f, "module", None), "tree", None))):
                    # a key with ties leaves tied items in the order they came in
                    return any(self.is_tainted(a, f, tainted) for a in e.args)
                if fn.id in ("sorted", "natsorted"):
                    # a key that ranks by a table numbered in iteration order of an unordered
                    # collection: total, but a different total order from run to run
                    for kw in e.keywords:
                        if kw.arg == "key":
                            kv = kw.value
                            if isinstance(kv, ast.Name) and kv.id in getattr(f, "nested", {}):
                                kv = f.nested[kv.id].node
                            for n_ in ast.walk(kv):
                                d_ = dotted(n_) if isinstance(n_, (ast.Name, ast.Attribute)) else None
                                if d_ and d_ + "@rank" in self._outer_tainted(f, tainted):
                                    return True
                if fn.id in CLEAN_FUNCS:
                    return False
                if fn.id in SEQ_FUNCS:
                    return any(self.is_tainted(a, f, tainted) for a in e.args)
                if fn.id in ("str", "repr"):
                    # the text of a container lists its elements in iteration order
                    return any(self.is_tainted(a, f, tainted) for a in e.args)
            if isinstance(fn, ast.Attribute):
                if fn.attr in SET_METHODS or fn.attr in ("keys", "values", "items"):
                    return self.is_tainted(fn.value, f, tainted)
                if fn.attr in ("get", "setdefault", "pop") and isinstance(fn.value, ast.Attribute) \
                        and fn.value.attr in NESTED_UNORDERED_FIELDS:
                    return True
                if fn.attr in ("get", "setdefault", "pop") and dotted(fn.value) \
                        and dotted(fn.value) + "@values" in tainted:
                    return True
                if fn.attr in ("get", "setdefault", "pop") and isinstance(fn.value, ast.Attribute) \
                        and dotted(fn.value.value) == "self" and f.cls is not None and any(
                            self.attr_values_taint.get((c_.fq, fn.value.attr)) for c_ in P.mro(f.cls)):
                    return True
                if fn.attr == "join":
                    return any(self.is_tainted(a, f, tainted) for a in e.args)
                if fn.attr == "format":
                    return any(self.is_tainted(a, f, tainted) for a in e.args) or \
                        any(self.is_tainted(k.value, f, tainted) for k in e.keywords)
                if fn.attr in ("get_read_variables", "get_written_variables",
                               "existing_var_names"):
                    return True
            # instance of a collector class being called
            if isinstance(fn, ast.Call):
                c = P.resolve_expr(f, fn.func)
                if isinstance(c, Class) and c in self.collector_classes():
                    return True
            if isinstance(fn, ast.Name):
                # local bound to a collector instance
                for n in ast.walk(f.node):
                    if isinstance(n, ast.Assign) and isinstance(n.value, ast.Call) \
                            and any(isinstance(t, ast.Name) and t.id == fn.id for t in n.targets):
                        c = P.resolve_expr(f, n.value.func)
                        if isinstance(c, Class) and c in self.collector_classes():
                            return True
            # resolved callee with return summary
            for callee in self.resolve_call(e, f):
                if self.ret_taint.get(callee):
                    return True
            return False
        return False

    # }}}

    # {{{ call resolution

    def resolve_call(self, call, f: Func):
        P = self.P
        fn = call.func
        out = []
        if isinstance(fn, ast.Name):
            t = P.resolve_name(f, fn.id)
            if isinstance(t, Func):
                out.append(t)
            elif isinstance(t, Class):
                m = P.method(t, "__init__")
                if m is not None:
                    out.append(m)
        elif isinstance(fn, ast.Attribute):
            if isinstance(fn.value, ast.Name) and fn.value.id == "self" and f.cls is not None:
                m = P.method(f.cls, fn.attr)
                if m is not None:
                    out.append(m)
                for sc in P.subclasses(f.cls):
                    if fn.attr in sc.methods and sc.methods[fn.attr] not in out:
                        out.append(sc.methods[fn.attr])
            elif isinstance(fn.value, ast.Call) and dotted(fn.value.func) == "super" \
                    and f.cls is not None:
                m = P.method(f.cls, fn.attr, after=f.cls)
                if m is not None:
                    out.append(m)
            else:
                t = P.resolve_expr(f, fn)
                if isinstance(t, Func):
                    out.append(t)
                elif isinstance(t, Class):
                    m = P.method(t, "__init__")
                    if m is not None:
                        out.append(m)
                else:
                    # self.attr.method(): attribute whose class is fixed by a
                    # constructor assignment in __init__
                    d = dotted(fn.value)
                    if d and d.startswith("self.") and f.cls is not None:
                        c = self.attr_class(f.cls, d[5:])
                        if c is not None:
                            m = P.method(c, fn.attr)
                            if m is not None:
                                out.append(m)
        return out

    def attr_class(self, cls: Class, attr):
        for c in self.P.mro(cls):
            for m in c.methods.values():
                for n in ast.walk(m.node):
                    if isinstance(n, ast.Assign) and isinstance(n.value, ast.Call) \
                            and any(dotted(t) == f"self.{attr}" for t in n.targets):
                        t = self.P.resolve_expr(m, n.value.func)
                        if isinstance(t, Class):
                            return t
        return None

    # }}}

    # {{{ sinks

    def direct_sink(self, call, f: Func):
        """Is this call itself an order-sensitive sink?  Returns a label."""
        fn = call.func
        d = dotted(fn)
        last = None
        if isinstance(fn, ast.Attribute):
            last = fn.attr
        elif isinstance(fn, ast.Name):
            last = fn.id
        if last is None:
            return None
        if EMIT_RE.match(last):
            return f"emit:{last}"
        if last in ALLOC_NAMES:
            return f"alloc:{last}"
        if isinstance(fn, ast.Name):
            # local emitter objects:  emit = PythonFunctionEmitter(...)
            for n in ast.walk(f.node):
                if isinstance(n, ast.Assign) and isinstance(n.value, ast.Call) \
                        and any(isinstance(t, ast.Name) and t.id == fn.id for t in n.targets):
                    cn = dotted(n.value.func) or ""
                    if cn.endswith("Emitter") or cn.endswith("Generator") and "Name" not in cn:
                        return f"emit:{cn}"
                    if "UniqueNameGenerator" in cn:
                        return f"alloc:{cn}"
                if isinstance(n, ast.withitem) and n.optional_vars is not None \
                        and isinstance(n.optional_vars, ast.Name) and n.optional_vars.id == fn.id \
                        and isinstance(n.context_expr, ast.Call):
                    cn = dotted(n.context_expr.func) or ""
                    if cn.endswith("Emitter"):
                        return f"emit:{cn}"
        if d in PHASE_MAP_CTORS:
            return f"phasemap:{d}"
        return None

    def subscript_sink(self, node):
        """self.name_manager[x]"""
        if isinstance(node, ast.Subscript) and isinstance(node.value, ast.Attribute) \
                and node.value.attr in NAME_MANAGER_ATTRS:
            return f"alloc:{node.value.attr}[...]"
        return None

    def compute_sink_funcs(self):
        """Functions that reach a sink, to a fixpoint over resolved calls."""
        direct = {}
        calls_of = {}
        for f in self.funcs:
            cs = []
            for n in ast.walk(f.node):
                if isinstance(n, ast.Call):
                    lab = self.direct_sink(n, f)
                    if lab and not lab.startswith("phasemap"):
                        direct.setdefault(f, lab)
                    cs.append(n)
                lab = self.subscript_sink(n)
                if lab:
                    direct.setdefault(f, lab)
            calls_of[f] = cs
        self.sink_funcs = dict(direct)
        changed = True
        while changed:
            changed = False
            for f in self.funcs:
                if f in self.sink_funcs:
                    continue
                for c in calls_of[f]:
                    for callee in self.resolve_call(c, f):
                        if callee in self.sink_funcs and callee is not f:
                            self.sink_funcs[f] = f"{callee.qualname} -> {self.sink_funcs[callee]}"
                            changed = True
                            break
                    if f in self.sink_funcs:
                        break

    def reaches_sink(self, nodes, f: Func):
        """Does any of the AST nodes (loop body) reach a sink?"""
        for b in nodes:
            for n in ast.walk(b):
                if isinstance(n, ast.Call):
                    lab = self.direct_sink(n, f)
                    if lab:
                        return lab
                    for callee in self.resolve_call(n, f):
                        if callee in self.sink_funcs:
                            return f"{callee.qualname} -> {self.sink_funcs[callee]}"
                lab = self.subscript_sink(n)
                if lab:
                    return lab
                if isinstance(n, (ast.Yield, ast.YieldFrom)):
                    # a generator yielding in tainted order: handled through
                    # the return summary of the enclosing function
                    pass
        return None

    # }}}

    # {{{ driver

    def run(self):
        self.compute_sink_funcs()
        # summaries to a fixpoint
        for _ in range(8):
            changed = False
            for f in self.funcs:
                t = self.local_taint(f)
                self._local_cache[f] = t
                # return summary
                r = False
                is_gen = False
                for n in ast.walk(f.node):
                    if isinstance(n, ast.Return) and n.value is not None \
                            and self._owner(f, n) and self.is_tainted(n.value, f, t):
                        r = True
                    if isinstance(n, (ast.Yield, ast.YieldFrom)) and self._owner(f, n):
                        is_gen = True
                if is_gen:
                    # generator: tainted if it yields inside a tainted loop
                    for n in ast.walk(f.node):
                        if isinstance(n, (ast.For,)) and self.is_tainted(n.iter, f, t) \
                                and any(isinstance(x, (ast.Yield, ast.YieldFrom))
                                        for b in n.body for x in ast.walk(b)):
                            r = True
                        if isinstance(n, ast.YieldFrom) and self.is_tainted(n.value, f, t):
                            r = True
                if r and not self.ret_taint.get(f):
                    self.ret_taint[f] = True
                    changed = True
                # a returned table whose values were built in tainted order
                for n in ast.walk(f.node):
                    if isinstance(n, ast.Return) and isinstance(n.value, ast.Name) \
                            and n.value.id + "@values" in t and not self.ret_values_taint.get(f):
                        self.ret_values_taint[f] = True
                        changed = True
                if f.cls is not None:
                    for n in ast.walk(f.node):
                        if isinstance(n, ast.Assign) and isinstance(n.value, ast.Call) and any(
                                self.ret_values_taint.get(c_) for c_ in self.resolve_call(n.value, f)):
                            for tg in n.targets:
                                d = dotted(tg)
                                if d and d.startswith("self.") and d.count(".") == 1:
                                    key = (f.cls.fq, d[5:])
                                    if not self.attr_values_taint.get(key):
                                        self.attr_values_taint[key] = True
                                        changed = True
                # attribute summaries
                if f.cls is not None:
                    for n in ast.walk(f.node):
                        if isinstance(n, ast.Assign) and self.is_tainted(n.value, f, t):
                            for tg in n.targets:
                                d = dotted(tg)
                                if d and d.startswith("self.") and d.count(".") == 1:
                                    key = (f.cls.fq, d[5:])
                                    if not self.attr_taint.get(key):
                                        self.attr_taint[key] = True
                                        changed = True
                    for x in t:
                        if x.startswith("self.") and x.count(".") == 1:
                            key = (f.cls.fq, x[5:])
                            if not self.attr_taint.get(key):
                                self.attr_taint[key] = True
                                changed = True
                # parameter summaries of callees
                for n in ast.walk(f.node):
                    if isinstance(n, ast.Call):
                        for callee in self.resolve_call(n, f):
                            if callee.module.trusted:
                                continue
                            off = 1 if (callee.cls is not None and callee.params
                                        and callee.params[0] in ("self", "cls")) else 0
                            for i, a in enumerate(n.args):
                                if self.is_tainted(a, f, t):
                                    s = self.param_taint.setdefault(callee, set())
                                    if i + off not in s:
                                        s.add(i + off)
                                        changed = True
                            for kw in n.keywords:
                                if kw.arg and kw.arg in callee.params \
                                        and self.is_tainted(kw.value, f, t):
                                    s = self.param_taint.setdefault(callee, set())
                                    idx = callee.params.index(kw.arg)
                                    if idx not in s:
                                        s.add(idx)
                                        changed = True
            if not changed:
                break
        # findings
        for f in self.funcs:
            t = self._local_cache.get(f) or self.local_taint(f)
            self._scan(f, t)
        return self.findings

    def _owner(self, f, node):
        """node belongs to f itself (not to a nested def)."""
        for g in f.nested.values():
            if any(x is node for x in ast.walk(g.node)):
                return False
        return True

    def _only_membership(self, call, arg, f):
        """The argument lands in a parameter of a method of the same class that is only
        ever asked `x in <parameter>`: its order is of no consequence there."""
        if not (isinstance(call.func, ast.Attribute) and dotted(call.func.value) == "self"
                and f.cls is not None):
            return False
        callee = self.P.method(f.cls, call.func.attr)
        if callee is None:
            return False
        pname = None
        for k in call.keywords:
            if k.value is arg:
                pname = k.arg
        if pname is None:
            for i, a_ in enumerate(call.args):
                if a_ is arg and i + 1 < len(callee.params):
                    pname = callee.params[i + 1]
        if pname is None:
            return False
        uses = [x for x in ast.walk(callee.node) if isinstance(x, ast.Name) and x.id == pname
                and isinstance(x.ctx, ast.Load)]
        if not uses:
            return False
        member = {id(c.comparators[0]) for c in ast.walk(callee.node) if isinstance(c, ast.Compare)
                  and len(c.ops) == 1 and isinstance(c.ops[0], (ast.In, ast.NotIn))}
        return all(id(u) in member for u in uses)

    def _scan(self, f, t):
        for n in ast.walk(f.node):
            if not self._owner(f, n):
                continue
            if isinstance(n, (ast.For, ast.AsyncFor)) and self.is_tainted(n.iter, f, t):
                sink = self.reaches_sink(n.body, f)
                self._record(f, n, f"for {norm(n.target)} in {norm(n.iter, 80)}", sink)
            elif isinstance(n, (ast.ListComp, ast.GeneratorExp, ast.SetComp, ast.DictComp)):
                for g in n.generators:
                    if self.is_tainted(g.iter, f, t):
                        elts = [n.key, n.value] if isinstance(n, ast.DictComp) else [n.elt]
                        sink = self.reaches_sink(elts + list(g.ifs), f)
                        self._record(f, n, f"[... for {norm(g.target)} in {norm(g.iter, 80)}]", sink)
            elif isinstance(n, ast.Call):
                lab = self.direct_sink(n, f)
                if lab:
                    args = list(n.args) + [k.value for k in n.keywords]
                    for a in args:
                        if self._only_membership(n, a, f):
                            continue
                        if self.is_tainted(a, f, t) and not self._is_setlike_arg(a):
                            self.findings.append(Finding(
                                f, n, f"order-tainted value {norm(a, 60)} passed to", lab))
                elif isinstance(n.func, ast.Attribute) and n.func.attr in ("extend", "extendleft") \
                        and n.args and self.is_tainted(n.args[0], f, t):
                    # sequence extended from a tainted container: the target is
                    # tainted (handled by local_taint when inside a loop); record
                    d = dotted(n.func.value)
                    if d and d not in t:
                        t.add(d)
                        # re-scan for uses of d
                        self._late_taint(f, t, d)

    def _late_taint(self, f, t, name):
        """A sequence became tainted through extend(<tainted>): its consumers
        are loops already scanned; look again for loops over *name*."""
        for n in ast.walk(f.node):
            if isinstance(n, ast.While):
                # work-list: `while name:` ... name.pop() ... -> order-sensitive
                # when the body reaches an order-sensitive result
                if dotted(n.test) == name:
                    sink = self.reaches_sink(n.body, f)
                    built = set()
                    for b in n.body:
                        built |= self._order_built(b, f, t)
                    self._record(f, n, f"work-list '{name}' seeded from an unordered container",
                                 sink or self._returned_or_sunk(f, built, t))

    def _returned_or_sunk(self, f, names, t):
        """One of *names* flows to the function's result, which callers treat
        as ordered."""
        for n in ast.walk(f.node):
            if isinstance(n, ast.Return) and n.value is not None:
                used = {dotted(x) for x in ast.walk(n.value)
                        if isinstance(x, (ast.Name, ast.Attribute))}
                if used & names:
                    return "result order (returned sequence)"
            if isinstance(n, (ast.For,)):
                if dotted(n.iter) in names:
                    lab = self.reaches_sink(n.body, f)
                    if lab:
                        return lab
                    # list consumed in order to build the returned structure
                    built = set()
                    for b in n.body:
                        built |= self._order_built(b, f, t)
                    for r in ast.walk(f.node):
                        if isinstance(r, ast.Return) and r.value is not None:
                            used = {dotted(x) for x in ast.walk(r.value)
                                    if isinstance(x, (ast.Name, ast.Attribute))}
                            if used & built:
                                return "result order (returned structure)"
        return None

    def _is_setlike_arg(self, a):
        return False

    def _record(self, f, node, what, sink):
        self.examined.append((f, node, what, sink))
        if sink:
            self.findings.append(Finding(f, node, what, sink))

    # }}}
