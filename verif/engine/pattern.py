"""Structural AST patterns with metavariables.

A pattern is Python source in which identifiers carry meaning by prefix:

    V_x    matches any *name* (ast.Name / function parameter); bound consistently
    E_x    matches any *expression*; bound consistently (structural equality)
    ANY    matches any expression, never bound

Everything else must match literally (node types, attribute names, constants,
operators, keyword names).  Positions, contexts and formatting are ignored, so
a pattern is invariant under re-layout and - through V_ metavariables - under
renaming of locals.

    find("V_s = list(get_statements_in_ast(V_p))", func.node)
"""

from __future__ import annotations

import ast

_CACHE = {}


def _compile(pat):
    if pat in _CACHE:
        return _CACHE[pat]
    try:
        tree = ast.parse(pat, mode="eval").body
    except SyntaxError:
        mod = ast.parse(pat)
        if len(mod.body) != 1:
            raise ValueError(f"pattern must be one statement or expression: {pat!r}")
        tree = mod.body[0]
        if isinstance(tree, ast.Expr):
            tree = tree.value
    _CACHE[pat] = tree
    return tree


_IGNORED = {"ctx", "lineno", "col_offset", "end_lineno", "end_col_offset",
            "type_comment", "kind"}


def _eq(a, b):
    return ast.dump(a) == ast.dump(b)


def match(pat, node, env=None):
    """Returns the binding dict, or None."""
    if isinstance(pat, str):
        pat = _compile(pat)
    env = dict(env or {})
    return env if _m(pat, node, env) else None


def _m(p, n, env):
    if isinstance(p, ast.Name):
        if p.id == "ANY":
            return isinstance(n, ast.expr)
        if p.id.startswith("V_"):
            if isinstance(n, ast.Name):
                name = n.id
            elif isinstance(n, ast.arg):
                name = n.arg
            else:
                return False
            if p.id in env:
                return env[p.id] == name
            env[p.id] = name
            return True
        if p.id.startswith("E_"):
            if not isinstance(n, ast.expr):
                return False
            if p.id in env:
                return _eq(env[p.id], n)
            env[p.id] = n
            return True
    if type(p) is not type(n):
        return False
    for fld in p._fields:
        if fld in _IGNORED:
            continue
        pv, nv = getattr(p, fld, None), getattr(n, fld, None)
        if isinstance(pv, list) and pv and isinstance(pv[0], ast.stmt):
            if not isinstance(nv, list) or not _m_block(pv, nv, env):
                return False
        elif isinstance(pv, list):
            if not isinstance(nv, list) or len(pv) != len(nv):
                return False
            for a, b in zip(pv, nv):
                if isinstance(a, ast.AST):
                    if not _m(a, b, env):
                        return False
                elif a != b:
                    return False
        elif isinstance(pv, ast.AST):
            if not isinstance(nv, ast.AST) or not _m(pv, nv, env):
                return False
        else:
            if isinstance(pv, str) and pv.startswith("V_") and isinstance(nv, str):
                # metavariable in an identifier-valued field (arg name, alias)
                if pv in env:
                    if env[pv] != nv:
                        return False
                else:
                    env[pv] = nv
            elif pv != nv:
                return False
    return True


_SIMPLE = (ast.Assign, ast.AugAssign, ast.AnnAssign, ast.Expr, ast.Assert,
           ast.Pass, ast.Import, ast.ImportFrom)


def _ids(node):
    out = set()
    for n in ast.walk(node):
        if isinstance(n, ast.Name):
            out.add(n.id)
        elif isinstance(n, ast.arg):
            out.add(n.arg)
    return out


def inert(stmt, matched_ids):
    """A statement that may stand between (or around) the statements a rule
    speaks about without mattering to them: straight-line, and neither storing
    to, deleting, nor passing to a call anything the rule's statements name."""
    if not isinstance(stmt, _SIMPLE):
        return False
    touched = set()
    for n in ast.walk(stmt):
        if isinstance(n, (ast.Yield, ast.YieldFrom, ast.Await, ast.NamedExpr,
                          ast.Lambda, ast.ListComp, ast.SetComp, ast.DictComp,
                          ast.GeneratorExp)):
            return False
        if isinstance(n, ast.Call):
            touched |= _ids(n)
        elif isinstance(n, ast.Name) and not isinstance(n.ctx, ast.Load):
            touched.add(n.id)
        elif isinstance(n, (ast.Attribute, ast.Subscript)) and not isinstance(n.ctx, ast.Load):
            touched |= _ids(n)
        elif isinstance(n, ast.alias):
            touched.add((n.asname or n.name).split(".")[0])
    return not (touched & matched_ids)


def strip_inert(block, keep):
    """The statements of `block` that are not inert with respect to the
    identifiers of the statements in `keep` (a subset of block)."""
    ids = set()
    for k in keep:
        ids |= _ids(k)
    return [s for s in block if any(s is k for k in keep) or not inert(s, ids)]


def _m_block(pv, nv, env):
    """Pattern statements match, in order, a subsequence of the block; every
    statement skipped is inert with respect to the statements matched."""
    if len(pv) > len(nv):
        return False
    if len(pv) == len(nv):
        e2 = dict(env)
        if all(_m(a, b, e2) for a, b in zip(pv, nv)):
            env.update(e2)
            return True
        return False

    def rec(i, j, e, used):
        if i == len(pv):
            ids = set()
            for k in used:
                ids |= _ids(nv[k])
            if all(inert(nv[k], ids) for k in range(len(nv)) if k not in used):
                return e
            return None
        for k in range(j, len(nv) - (len(pv) - i) + 1):
            e2 = dict(e)
            if _m(pv[i], nv[k], e2):
                r = rec(i + 1, k + 1, e2, used + [k])
                if r is not None:
                    return r
        return None

    r = rec(0, 0, dict(env), [])
    if r is None:
        return False
    env.update(r)
    return True


def find(pat, root, env=None, nested=True):
    """All (node, bindings) under root matching the pattern."""
    p = _compile(pat) if isinstance(pat, str) else pat
    out = []
    for n in ast.walk(root):
        if type(n) is type(p) or isinstance(p, ast.Name):
            b = match(p, n, env)
            if b is not None:
                out.append((n, b))
    return out


def has(pat, root, env=None):
    return bool(find(pat, root, env))


def first(pat, root, env=None):
    r = find(pat, root, env)
    return r[0] if r else (None, None)
