"""Statement-level control-flow graph for one function body.

Handles the statement kinds the analysed repository uses: simple statements,
if/elif/else, for/while (with zero-trip edge, break, continue, else), try /
except / else / finally (an exceptional edge from every statement of the try
body), with, return, raise, assert, nested function definitions (as plain
nodes).  Nested functions / comprehensions get their own graphs on request.

Path queries are phrased as reachability with a set of nodes removed:

* ``every B is preceded by an A``     <=> no B reachable from ENTRY avoiding A
* ``after A every exit passes a B``   <=> no EXIT reachable from A avoiding B
"""

from __future__ import annotations

import ast


class Node:
    __slots__ = ("id", "kind", "ast", "label")

    def __init__(self, id, kind, ast_node=None, label=None):
        self.id = id
        self.kind = kind      # entry, exit, raise, stmt, test, for, with, except, finally, join
        self.ast = ast_node
        self.label = label

    @property
    def lineno(self):
        return getattr(self.ast, "lineno", 0)

    def __repr__(self):
        src = ""
        if self.ast is not None:
            try:
                src = ast.unparse(self.ast).split("\n")[0][:60]
            except Exception:
                src = type(self.ast).__name__
        return f"<{self.id}:{self.kind} {src}>"


class CFG:
    def __init__(self, func_node):
        self.func = func_node
        self.nodes = []
        self.succ = {}
        self.pred = {}
        self.entry = self._new("entry")
        self.exit = self._new("exit")          # normal return / fall off the end
        self.raise_exit = self._new("raise")   # exception leaves the function
        self._by_ast = {}
        body = func_node.body if not isinstance(func_node, ast.Lambda) else []
        ctx = _Ctx(loop=None, handlers=[], finallies=[])
        ends = self._seq(body, [(self.entry, None)], ctx)
        for e, lab in ends:
            self._edge(e, self.exit, lab if lab else "fall")

    # {{{ construction

    def _new(self, kind, ast_node=None):
        n = Node(len(self.nodes), kind, ast_node)
        self.nodes.append(n)
        self.succ[n] = []
        self.pred[n] = []
        if ast_node is not None and kind in ("stmt", "test", "for", "with"):
            self._by_ast[id(ast_node)] = n
        return n

    def _edge(self, a, b, label=None):
        if (b, label) not in self.succ[a]:
            self.succ[a].append((b, label))
            self.pred[b].append((a, label))

    def _connect(self, froms, to):
        for f, lab in froms:
            self._edge(f, to, lab)

    def _exc_target(self, ctx):
        """Where does an exception raised here go?"""
        if ctx.handlers:
            return ctx.handlers[-1]
        return self.raise_exit

    def _seq(self, stmts, froms, ctx):
        for s in stmts:
            froms = self._stmt(s, froms, ctx)
        return froms

    def _may_raise_edge(self, n, ctx):
        # every statement inside a try body may raise; outside a try we only
        # record explicit raises/asserts and calls (cheap over-approximation
        # is not needed there: raise_exit reachability is only queried for
        # exceptional=True queries, which add these edges on demand)
        tgt = self._exc_target(ctx)
        self._edge(n, tgt, "exc")

    def _stmt(self, s, froms, ctx):
        if isinstance(s, ast.If):
            t = self._new("test", s.test)
            t.label = s
            self._by_ast[id(s)] = t
            self._connect(froms, t)
            self._may_raise_edge(t, ctx)
            a = self._seq(s.body, [(t, "T")], ctx)
            b = self._seq(s.orelse, [(t, "F")], ctx)
            return a + b

        if isinstance(s, ast.While):
            t = self._new("test", s.test)
            t.label = s
            self._by_ast[id(s)] = t
            self._connect(froms, t)
            self._may_raise_edge(t, ctx)
            lctx = _Ctx(loop=_Loop(t), handlers=ctx.handlers, finallies=ctx.finallies)
            body_end = self._seq(s.body, [(t, "T")], lctx)
            self._connect(body_end, t)
            for c in lctx.loop.continues:
                self._edge(c, t, "continue")
            is_true = isinstance(s.test, ast.Constant) and bool(s.test.value)
            out = []
            if not is_true:
                out = self._seq(s.orelse, [(t, "F")], ctx)
            out += [(b, "break") for b in lctx.loop.breaks]
            return out

        if isinstance(s, (ast.For, ast.AsyncFor)):
            h = self._new("for", s)
            self._connect(froms, h)
            self._may_raise_edge(h, ctx)
            lctx = _Ctx(loop=_Loop(h), handlers=ctx.handlers, finallies=ctx.finallies)
            body_end = self._seq(s.body, [(h, "T")], lctx)
            self._connect(body_end, h)
            for c in lctx.loop.continues:
                self._edge(c, h, "continue")
            out = self._seq(s.orelse, [(h, "F")], ctx)
            out += [(b, "break") for b in lctx.loop.breaks]
            return out

        if isinstance(s, (ast.With, ast.AsyncWith)):
            h = self._new("with", s)
            self._connect(froms, h)
            self._may_raise_edge(h, ctx)
            return self._seq(s.body, [(h, None)], ctx)

        if isinstance(s, ast.Try) or (hasattr(ast, "TryStar") and isinstance(s, ast.TryStar)):
            return self._try(s, froms, ctx)

        n = self._new("stmt", s)
        self._connect(froms, n)

        if isinstance(s, ast.Return):
            self._leave(n, ctx, self.exit, "return")
            return []
        if isinstance(s, ast.Raise):
            self._edge(n, self._exc_target(ctx), "raise")
            return []
        if isinstance(s, ast.Break):
            if ctx.loop is not None:
                ctx.loop.breaks.append(n)
            return []
        if isinstance(s, ast.Continue):
            if ctx.loop is not None:
                ctx.loop.continues.append(n)
            return []
        if not isinstance(s, (ast.Import, ast.ImportFrom, ast.Pass, ast.Global,
                              ast.Nonlocal)) and not _cannot_raise(s):
            # imports of modules of the analysed package are treated as
            # non-raising (they are resolved when the package is loaded)
            self._may_raise_edge(n, ctx)
        return [(n, None)]

    def _leave(self, n, ctx, target, label):
        """return: run enclosing finally blocks first (modelled as one shared
        copy of each finally body)."""
        if ctx.finallies:
            fin = ctx.finallies[-1]
            self._edge(n, fin.entry, label)
            fin.leave_targets.add((target, label))
        else:
            self._edge(n, target, label)

    def _try(self, s, froms, ctx):
        has_finally = bool(s.finalbody)
        fin = None
        if has_finally:
            fin = _Finally(self._new("finally", s))
        # dispatch node for exceptions raised in the body
        disp = self._new("except", s)
        handlers_ctx = _Ctx(
            loop=ctx.loop,
            handlers=ctx.handlers + [disp],
            finallies=ctx.finallies + ([fin] if fin else []))
        body_end = self._seq(s.body, froms, handlers_ctx)
        # else clause: exceptions there are not caught by these handlers
        after_ctx = _Ctx(
            loop=ctx.loop,
            handlers=ctx.handlers + ([fin.exc_entry(self)] if fin else []),
            finallies=ctx.finallies + ([fin] if fin else []))
        else_end = self._seq(s.orelse, body_end, after_ctx) if s.orelse else body_end
        ends = list(else_end)
        catches_all = False
        for h in s.handlers:
            hn = self._new("stmt", h)
            self._by_ast[id(h)] = hn
            hn.kind = "handler"
            self._edge(disp, hn, "caught")
            if h.type is None:
                catches_all = True
            elif isinstance(h.type, ast.Name) and h.type.id in ("BaseException",):
                catches_all = True
            ends += self._seq(h.body, [(hn, None)], after_ctx)
        if not catches_all:
            # exception not matched by any handler propagates
            if fin:
                self._edge(disp, fin.exc_entry(self), "exc")
            else:
                self._edge(disp, self._exc_target(ctx), "exc")
        if not fin:
            return ends
        # finally body: one shared copy
        self._connect(ends, fin.entry)
        fend = self._seq(s.finalbody, [(fin.entry, None)], ctx)
        if fin._exc is not None:
            # exceptional entry flows through the same body, then re-raises
            for e, lab in fend:
                self._edge(e, self._exc_target(ctx), "reraise")
        for (target, label) in fin.leave_targets:
            for e, lab in fend:
                if ctx.finallies:
                    outer = ctx.finallies[-1]
                    self._edge(e, outer.entry, label)
                    outer.leave_targets.add((target, label))
                else:
                    self._edge(e, target, label)
        return fend

    # }}}

    # {{{ queries

    def node_of(self, ast_node):
        return self._by_ast.get(id(ast_node))

    def stmt_nodes(self):
        return [n for n in self.nodes if n.ast is not None]

    def find(self, pred):
        """Nodes whose own AST (statement, or test expression for if/while,
        or the iter/target for ``for``, or the items for ``with``) satisfies
        *pred*.  *pred* receives the list of AST fragments evaluated *at* that
        node (not the nested bodies)."""
        out = []
        for n in self.nodes:
            frags = own_fragments(n)
            if frags and pred(n, frags):
                out.append(n)
        return out

    def reachable(self, starts, avoid=(), follow_exc=True, include_start=False):
        avoid = set(avoid)
        seen = set()
        stack = []
        for s in starts:
            if include_start:
                if s not in avoid:
                    stack.append(s)
            else:
                for t, lab in self.succ[s]:
                    if not follow_exc and lab in ("exc", "raise", "reraise"):
                        continue
                    if t not in avoid:
                        stack.append(t)
        while stack:
            n = stack.pop()
            if n in seen:
                continue
            seen.add(n)
            for t, lab in self.succ[n]:
                if not follow_exc and lab in ("exc", "raise", "reraise"):
                    continue
                if t not in avoid and t not in seen:
                    stack.append(t)
        return seen

    def always_preceded(self, b_nodes, a_nodes):
        """Every path ENTRY -> b passes some a first (a dominates b as a set).
        Returns the list of b nodes for which this fails."""
        reach = self.reachable([self.entry], avoid=a_nodes, follow_exc=True,
                               include_start=True)
        return [b for b in b_nodes if b in reach and b not in set(a_nodes)]

    def always_followed(self, a_nodes, b_nodes, exceptional=False):
        """From every a, every path to an exit passes some b.
        Returns list of (a, exit node reached)."""
        bad = []
        exits = [self.exit] + ([self.raise_exit] if exceptional else [])
        for a in a_nodes:
            reach = self.reachable([a], avoid=b_nodes, follow_exc=exceptional)
            for e in exits:
                if e in reach:
                    bad.append((a, e))
        return bad

    def path(self, src, dst, avoid=(), follow_exc=True):
        """One shortest path src -> dst avoiding nodes (for diagnostics)."""
        from collections import deque
        avoid = set(avoid)
        q = deque([src])
        prev = {src: None}
        while q:
            n = q.popleft()
            if n is dst:
                out = []
                while n is not None:
                    out.append(n)
                    n = prev[n]
                return out[::-1]
            for t, lab in self.succ[n]:
                if not follow_exc and lab in ("exc", "raise", "reraise"):
                    continue
                if t in avoid or t in prev:
                    continue
                prev[t] = n
                q.append(t)
        return None

    # }}}


def _cannot_raise(s):
    """`name = <literal constant>` / `self.attr = <literal constant>`: binding a constant
    to a local or to an attribute of the receiver cannot raise."""
    if isinstance(s, ast.Expr) and isinstance(s.value, ast.Call) and not s.value.args \
            and not s.value.keywords and isinstance(s.value.func, ast.Attribute) \
            and s.value.func.attr == "clear" and isinstance(s.value.func.value, ast.Attribute) \
            and isinstance(s.value.func.value.value, ast.Name) and s.value.func.value.value.id == "self":
        # self.table.clear(): emptying a container held by the receiver
        return True
    return isinstance(s, ast.Assign) and isinstance(s.value, ast.Constant) \
        and all(isinstance(t, ast.Name) or (isinstance(t, ast.Attribute)
                                            and isinstance(t.value, ast.Name) and t.value.id == "self")
                for t in s.targets)


class _Loop:
    def __init__(self, head):
        self.head = head
        self.breaks = []
        self.continues = []


class _Finally:
    def __init__(self, entry):
        self.entry = entry
        self.leave_targets = set()
        self._exc = None

    def exc_entry(self, cfg):
        # exceptional entry shares the body with the normal entry
        if self._exc is None:
            self._exc = self.entry
        return self._exc


class _Ctx:
    def __init__(self, loop, handlers, finallies):
        self.loop = loop
        self.handlers = handlers
        self.finallies = finallies


def own_fragments(n):
    """AST fragments evaluated at CFG node *n* itself."""
    a = n.ast
    if a is None:
        return []
    if n.kind == "test":
        return [a]
    if n.kind == "for":
        return [a.target, a.iter]
    if n.kind == "with":
        out = []
        for it in a.items:
            out.append(it.context_expr)
            if it.optional_vars is not None:
                out.append(it.optional_vars)
        return out
    if n.kind == "handler":
        return [a.type] if a.type is not None else []
    if n.kind in ("except", "finally"):
        return []
    if isinstance(a, (ast.FunctionDef, ast.AsyncFunctionDef, ast.ClassDef)):
        return list(a.decorator_list)
    return [a]


def walk_fragment(frag):
    """ast.walk that does not descend into nested function / lambda / class
    bodies (they execute at another time)."""
    stack = [frag]
    while stack:
        n = stack.pop()
        yield n
        for c in ast.iter_child_nodes(n):
            if isinstance(c, (ast.FunctionDef, ast.AsyncFunctionDef, ast.Lambda,
                              ast.ClassDef)):
                continue
            stack.append(c)


def forward(cfg, init, transfer, edge=None, meet=None, top=None):
    """Generic forward dataflow.

    transfer(node, in_state) -> out_state
    edge(node, label, out_state) -> state propagated along that edge
    meet(a, b) -> combined state;  *top* is the neutral element (unvisited)
    Returns {node: in_state}.
    """
    ins = {n: top for n in cfg.nodes}
    ins[cfg.entry] = init
    work = [cfg.entry]
    outs = {}
    while work:
        n = work.pop()
        if ins[n] is top:
            continue
        out = transfer(n, ins[n])
        outs[n] = out
        for t, lab in cfg.succ[n]:
            st = edge(n, lab, out) if edge else out
            if st is top:
                continue
            new = st if ins[t] is top else meet(ins[t], st)
            if new != ins[t]:
                ins[t] = new
                work.append(t)
    return ins
