"""./check <property id> [--tier quick|thorough] [--replay path] [--repo dir]

exit 0  every rule instance held (known findings aside)
exit 1  at least one unlisted finding (VIOLATION line printed)
exit 2  ANALYSIS-ERROR (anchor vanished, unrecognised idiom, checker bug)
"""

from __future__ import annotations

import argparse
import importlib
import json
import os
import sys
import traceback


def main(argv=None):
    ap = argparse.ArgumentParser(prog="check")
    ap.add_argument("prop")
    ap.add_argument("--tier", default=os.environ.get("VERIF_TIER", "quick"),
                    choices=["quick", "thorough"])
    ap.add_argument("--replay", default=None)
    ap.add_argument("--repo", default=None)
    ap.add_argument("--no-evidence", action="store_true")
    ap.add_argument("--jobs", type=int, default=int(os.environ.get("VERIF_JOBS", "16")))
    args = ap.parse_args(argv)

    try:
        seed = int(os.environ.get("VERIF_SEED", "0"))
    except ValueError:
        seed = 0

    prop = args.prop.upper()
    try:
        if args.repo:
            os.environ["VERIF_REPO"] = args.repo
        from .engine import report, srcmodel
        if args.repo:
            srcmodel.REPO_ROOT = args.repo
        try:
            mod = importlib.import_module(f"verif.rules.{prop.lower()}")
        except ModuleNotFoundError:
            print(f"ANALYSIS-ERROR property={prop}: no rule module "
                  f"(property not claimed)")
            return 2

        P = srcmodel.Program(repo_root=args.repo)
        run = report.Run(prop, tier=args.tier, seed=seed, program=P)
        mod.check(run, P)
        if args.tier == "thorough":
            if hasattr(mod, "thorough"):
                mod.thorough(run, P)
            from .selftest import harness
            harness.self_validate(run, mod, P, jobs=args.jobs, seed=seed)

        if args.replay:
            with open(args.replay) as f:
                rec = json.load(f)
            hit = [o for o in run.violations()
                   if report.finding_id(prop, o) == rec.get("finding")]
            run.check_minimums()
            if hit:
                o = hit[0]
                print(f"{o.file}:{o.line} rule={o.rule} function={o.function} "
                      f"construct={o.construct!r} why={o.why}")
                print(f"VIOLATION property={prop} replay={args.replay}")
                return 1
            print(f"[{prop}] replayed finding {rec.get('finding')} no longer present")
            return 0

        cmd = f"./check {prop} --tier {args.tier}"
        return report.finish(
            run,
            explanation=mod.EXPLANATION,
            assumptions=mod.ASSUMPTIONS,
            checker_cmd=cmd,
            rule_text=getattr(mod, "RULE_TEXT", DEFAULT_RULE_TEXT),
            trusted_base=getattr(mod, "TRUSTED_BASE", DEFAULT_TRUSTED),
            write_evidence=not args.no_evidence)
    except Exception as e:  # includes AnalysisError
        from .engine.srcmodel import AnalysisError
        if isinstance(e, AnalysisError):
            print(f"ANALYSIS-ERROR property={prop}: {e}")
        else:
            traceback.print_exc()
            print(f"ANALYSIS-ERROR property={prop}: checker exception "
                  f"{type(e).__name__}: {e}")
        return 2


DEFAULT_RULE_TEXT = (
    "cases are rule instances (rule id x matched source construct) evaluated "
    "over /repo's current source; an instance is distinct by (rule, file, "
    "function, normalised construct) and non-trivial because each rule "
    "declares a hand-confirmed minimum number of matched sites and the run "
    "fails (exit 2) below it")

DEFAULT_TRUSTED = [
    "CPython ast module (parser)",
    "installed pymbolic/pytools sources (read on every run, digests in evidence)",
    "semantics of deque.extendleft/popleft, set iteration order, dict insertion order, zip truncation",
]


if __name__ == "__main__":
    sys.exit(main())
