"""Behaviour-preserving source transformations ("twins").  A rule that fires
on a twin matches a frozen shape, not the property."""

from __future__ import annotations

import ast
import random


def unparse_roundtrip(src):
    """Drops comments, normalises layout, quoting and redundant parentheses."""
    return ast.unparse(ast.parse(src)) + "\n"


class _Renamer(ast.NodeTransformer):
    def __init__(self, mapping):
        self.mapping = mapping

    def visit_Name(self, node):
        if node.id in self.mapping:
            return ast.copy_location(ast.Name(id=self.mapping[node.id], ctx=node.ctx), node)
        return node

    def visit_arg(self, node):
        # parameters of nested functions that shadow a renamed local
        if node.arg in self.mapping and getattr(self, "_depth", 0) > 0:
            node.arg = self.mapping[node.arg]
        return node

    def visit_FunctionDef(self, node):
        self._depth = getattr(self, "_depth", 0) + 1
        node = self.generic_visit(node)
        self._depth -= 1
        return node

    visit_AsyncFunctionDef = visit_FunctionDef
    visit_Lambda = visit_FunctionDef


def _local_names(fn):
    """Names bound by assignment / for / with / comprehension inside fn that
    are safe to rename uniformly."""
    bound = set()
    blocked = set(a.arg for a in fn.args.args + fn.args.kwonlyargs + fn.args.posonlyargs)
    if fn.args.vararg:
        blocked.add(fn.args.vararg.arg)
    if fn.args.kwarg:
        blocked.add(fn.args.kwarg.arg)
    for n in ast.walk(fn):
        if isinstance(n, (ast.Global, ast.Nonlocal)):
            blocked |= set(n.names)
        if isinstance(n, (ast.Import, ast.ImportFrom)):
            for a in n.names:
                blocked.add((a.asname or a.name).split(".")[0])
        if isinstance(n, (ast.FunctionDef, ast.AsyncFunctionDef, ast.ClassDef)) and n is not fn:
            blocked.add(n.name)
            # keyword calls to nested functions use parameter names
            for a in n.args.args + n.args.kwonlyargs if not isinstance(n, ast.ClassDef) else []:
                blocked.add(a.arg)
        if isinstance(n, ast.Name) and isinstance(n.ctx, ast.Store):
            bound.add(n.id)
        if isinstance(n, ast.ExceptHandler) and n.name:
            blocked.add(n.name)
    return {b for b in bound if b not in blocked and not b.startswith("__")}


def alpha_rename(src, seed=0, fraction=1.0):
    """Rename local variables of every function (uniformly within the
    function, including nested scopes)."""
    rng = random.Random(seed)
    tree = ast.parse(src)
    module_names = set()
    for n in tree.body:
        if isinstance(n, (ast.FunctionDef, ast.ClassDef)):
            module_names.add(n.name)
        if isinstance(n, ast.Assign):
            for t in n.targets:
                if isinstance(t, ast.Name):
                    module_names.add(t.id)
        if isinstance(n, (ast.Import, ast.ImportFrom)):
            for a in n.names:
                module_names.add((a.asname or a.name).split(".")[0])

    def process(body):
        for i, n in enumerate(body):
            if isinstance(n, (ast.FunctionDef, ast.AsyncFunctionDef)):
                names = sorted(x for x in _local_names(n) if x not in module_names)
                chosen = [x for x in names if rng.random() < fraction]
                mapping = {x: f"{x}_rn" for x in chosen}
                # avoid clashes with existing names
                existing = {y.id for y in ast.walk(n) if isinstance(y, ast.Name)}
                mapping = {k: v for k, v in mapping.items() if v not in existing}
                if mapping:
                    body[i] = _Renamer(mapping).visit(n)
            elif isinstance(n, ast.ClassDef):
                process(n.body)

    process(tree.body)
    ast.fix_missing_locations(tree)
    return ast.unparse(tree) + "\n"


def add_docstrings(src):
    """Insert a docstring into every function that lacks one."""
    tree = ast.parse(src)
    for n in ast.walk(tree):
        if isinstance(n, (ast.FunctionDef, ast.AsyncFunctionDef)):
            if not (n.body and isinstance(n.body[0], ast.Expr)
                    and isinstance(n.body[0].value, ast.Constant)
                    and isinstance(n.body[0].value.value, str)):
                n.body.insert(0, ast.Expr(value=ast.Constant(value="(documentation added)")))
    ast.fix_missing_locations(tree)
    return ast.unparse(tree) + "\n"


def insert_noise(src, seed=0):
    """Like insert_passes, but the inserted statement is an assignment to a
    fresh local (`_trace_rn = None`), which no canonicalisation removes: the
    stand-in for an added log line or counter."""
    counter = [0]

    def make():
        counter[0] += 1
        return ast.Assign(
            targets=[ast.Name(id=f"_trace{counter[0]}_rn", ctx=ast.Store())],
            value=ast.Constant(value=None))

    return insert_passes(src, seed, make=make)


def insert_passes(src, seed=0, make=ast.Pass):
    """Insert `pass` statements at the start of every function and between
    statements of every block (a stand-in for added logging / comments that
    became statements)."""
    rng = random.Random(seed + 17)
    tree = ast.parse(src)

    def has_doc(body):
        return bool(body) and isinstance(body[0], ast.Expr) \
            and isinstance(body[0].value, ast.Constant) and isinstance(body[0].value.value, str)

    for n in ast.walk(tree):
        for fld in ("body", "orelse", "finalbody"):
            blk = getattr(n, fld, None)
            if not isinstance(blk, list) or not blk or not all(isinstance(x, ast.stmt) for x in blk):
                continue
            if isinstance(n, (ast.Module, ast.ClassDef)):
                continue
            new = []
            start = 1 if (fld == "body" and has_doc(blk)) else 0
            for i, st in enumerate(blk):
                if i >= start and rng.random() < 0.5:
                    new.append(make())
                new.append(st)
            if rng.random() < 0.3 and not _leaves(blk):
                new.append(make())
            setattr(n, fld, new)
    ast.fix_missing_locations(tree)
    return ast.unparse(tree) + "\n"


def swap_independent(src, seed=0):
    """Swap adjacent simple statements that cannot affect each other: neither
    contains a call, a yield or an attribute/subscript store, and neither
    writes a name the other mentions."""
    rng = random.Random(seed + 29)
    tree = ast.parse(src)

    def pure(s):
        if not isinstance(s, (ast.Assign, ast.AnnAssign)):
            return False
        tg = s.targets if isinstance(s, ast.Assign) else [s.target]
        if not all(isinstance(t, ast.Name) for t in tg):
            return False
        return not any(isinstance(x, (ast.Call, ast.Yield, ast.YieldFrom, ast.Await, ast.NamedExpr,
                                      ast.Subscript, ast.Attribute, ast.Lambda, ast.ListComp,
                                      ast.SetComp, ast.DictComp, ast.GeneratorExp))
                       for x in ast.walk(s))

    def ids(s):
        return {x.id for x in ast.walk(s) if isinstance(x, ast.Name)}

    def writes(s):
        return {x.id for x in ast.walk(s) if isinstance(x, ast.Name) and isinstance(x.ctx, ast.Store)}

    for n in ast.walk(tree):
        for fld in ("body", "orelse", "finalbody"):
            blk = getattr(n, fld, None)
            if not isinstance(blk, list) or isinstance(n, (ast.Module, ast.ClassDef)):
                continue
            i = 0
            while i + 1 < len(blk):
                a, b = blk[i], blk[i + 1]
                if pure(a) and pure(b) and not (writes(a) & ids(b)) and not (writes(b) & ids(a)) \
                        and rng.random() < 0.8:
                    blk[i], blk[i + 1] = b, a
                    i += 2
                else:
                    i += 1
    ast.fix_missing_locations(tree)
    return ast.unparse(tree) + "\n"


def _leaves(block):
    if not block:
        return False
    last = block[-1]
    if isinstance(last, (ast.Return, ast.Raise, ast.Continue, ast.Break)):
        return True
    if isinstance(last, ast.If):
        return _leaves(last.body) and _leaves(last.orelse)
    return False


def else_flip(src, seed=0):
    """`if c: <leaves> else: B`  <->  `if c: <leaves>` followed by B.
    Where the else is present it is dissolved; where a leaving `if` without
    else is followed by more statements, those are moved into an else."""
    rng = random.Random(seed + 31)
    tree = ast.parse(src)
    for n in ast.walk(tree):
        for fld in ("body", "orelse", "finalbody"):
            blk = getattr(n, fld, None)
            if not isinstance(blk, list) or not blk or isinstance(n, (ast.Module, ast.ClassDef)):
                continue
            if not all(isinstance(x, ast.stmt) for x in blk):
                continue
            new = []
            i = 0
            while i < len(blk):
                st = blk[i]
                if isinstance(st, ast.If) and _leaves(st.body):
                    is_elif = len(st.orelse) == 1 and isinstance(st.orelse[0], ast.If)
                    if st.orelse and not is_elif:
                        # dissolve the else
                        rest = st.orelse
                        st.orelse = []
                        new.append(st)
                        new.extend(rest)
                        i += 1
                        continue
                    if not st.orelse and i + 1 < len(blk) and rng.random() < 0.7 \
                            and not any(isinstance(x, (ast.FunctionDef, ast.ClassDef))
                                        for x in blk[i + 1:]):
                        st.orelse = blk[i + 1:]
                        new.append(st)
                        i = len(blk)
                        continue
                new.append(st)
                i += 1
            setattr(n, fld, new)
    ast.fix_missing_locations(tree)
    return ast.unparse(tree) + "\n"


def polarity_flip(src, seed=0):
    """`if c: A else: B` -> `if not c: B else: A` (and `if not c: ...` ->
    `if c: ...`) for two-armed conditionals that are not elif chains."""
    rng = random.Random(seed + 37)
    tree = ast.parse(src)
    for n in ast.walk(tree):
        if isinstance(n, ast.If) and n.orelse and not (
                len(n.orelse) == 1 and isinstance(n.orelse[0], ast.If)) and rng.random() < 0.8:
            if isinstance(n.test, ast.UnaryOp) and isinstance(n.test.op, ast.Not):
                n.test = n.test.operand
            else:
                n.test = ast.UnaryOp(op=ast.Not(), operand=n.test)
            n.body, n.orelse = n.orelse, n.body
    ast.fix_missing_locations(tree)
    return ast.unparse(tree) + "\n"

_KEYWORDS = None


def _keyword_names():
    """Every name that is passed by keyword anywhere in the repository (package,
    tests, examples): a parameter of that name is never renamed."""
    global _KEYWORDS
    if _KEYWORDS is None:
        import os
        from ..engine import srcmodel
        names = set()
        for top in ("dagrt", "test", "examples", "doc"):
            for dp, _dn, fn in os.walk(os.path.join(srcmodel.REPO_ROOT, top)):
                for f in fn:
                    if f.endswith(".py"):
                        try:
                            tree = ast.parse(open(os.path.join(dp, f)).read())
                        except (SyntaxError, OSError):
                            continue
                        fmt = {id(k) for n in ast.walk(tree) if isinstance(n, ast.Call)
                               and isinstance(n.func, ast.Attribute) and n.func.attr == "format"
                               for k in n.keywords}
                        data = f in ("function_registry.py", "builtins_python.py")
                        for n in ast.walk(tree):
                            if isinstance(n, ast.keyword) and n.arg and id(n) not in fmt:
                                names.add(n.arg)
                            # names bound through data (registry arg_names)
                            if data and isinstance(n, ast.Constant) and isinstance(n.value, str) \
                                    and n.value.isidentifier():
                                names.add(n.value)
        _KEYWORDS = names
    return _KEYWORDS


def rename_params(src, seed=0):
    """Rename the positional parameters of every function and method that no
    call in the repository passes by keyword."""
    kw = _keyword_names()
    tree = ast.parse(src)
    module_names = {n.id for n in ast.walk(tree) if isinstance(n, ast.Name)} | \
        {a.arg for n in ast.walk(tree) if isinstance(n, (ast.FunctionDef, ast.Lambda))
         for a in n.args.args + n.args.kwonlyargs}

    def process(body, in_class):
        for i, n in enumerate(body):
            if isinstance(n, (ast.FunctionDef, ast.AsyncFunctionDef)):
                if any(isinstance(x, (ast.Global, ast.Nonlocal)) for x in ast.walk(n)):
                    continue
                params = [a.arg for a in n.args.posonlyargs + n.args.args]
                # optional parameters are conventionally passed by keyword: public names
                if n.args.defaults:
                    params = params[:-len(n.args.defaults)]
                if in_class and len(n.args.posonlyargs + n.args.args) > 0 and params and not any(
                        isinstance(d, ast.Name) and d.id == "staticmethod" for d in n.decorator_list):
                    params = params[1:]
                # parameters of nested functions and lambdas keep their names
                inner = {a.arg for x in ast.walk(n) if x is not n
                         and isinstance(x, (ast.FunctionDef, ast.Lambda))
                         for a in x.args.args + x.args.kwonlyargs}
                mapping = {}
                for q in params:
                    new = f"{q}_p"
                    if q in kw or q in inner or new in module_names or q.startswith("_"):
                        continue
                    mapping[q] = new
                if mapping:
                    body[i] = _Renamer(mapping).visit(n)
            elif isinstance(n, ast.ClassDef):
                process(n.body, True)

    process(tree.body, False)
    ast.fix_missing_locations(tree)
    return ast.unparse(tree) + "\n"


TWINS = {
    "unparse": lambda src, seed: unparse_roundtrip(src),
    "docstrings": lambda src, seed: add_docstrings(src),
    "alpha": lambda src, seed: alpha_rename(src, seed),
    "passes": lambda src, seed: insert_passes(src, seed),
    "noise": lambda src, seed: insert_noise(src, seed),
    "swap": lambda src, seed: swap_independent(src, seed),
    "elseflip": lambda src, seed: else_flip(src, seed),
    "polarity": lambda src, seed: polarity_flip(src, seed),
    "params": lambda src, seed: rename_params(src, seed),
}
