"""Self-validation: run a property's rules against in-memory variants of the
current tree.

* mutants  - seeded changes kept under /verif/seeded/ and the reverse of each
             repair commit kept under /verif/verif/selftest/regress/: the
             rules must report at least one violation (and name a construct);
* twins    - behaviour-preserving transformations of the whole package: the
             rules must stay silent.

Everything is applied to source text in memory (loader overlay); nothing is
written to disk.  Results measure the checker, never the repository: an
undetected mutant or a firing twin is printed as SELFTEST-WEAK and recorded in
the evidence; it is not a VIOLATION.
"""

from __future__ import annotations

import glob
import importlib
import json
import os
from concurrent.futures import ProcessPoolExecutor

from ..engine import report, srcmodel
from . import patch, twins

HERE = os.path.dirname(os.path.abspath(__file__))
ROOT = report.VERIF_ROOT


def _read_repo(repo_root):
    def rd(path):
        with open(os.path.join(repo_root, path), encoding="utf-8") as f:
            return f.read()
    return rd


def _eval_variant(args):
    prop, kind, name, overlay, repo_root = args
    try:
        mod = importlib.import_module(f"verif.rules.{prop.lower()}")
        P = srcmodel.Program(repo_root=repo_root, overlay=overlay)
        run = report.Run(prop, tier="selftest", program=P)
        mod.check(run, P)
        run.check_minimums()
        known = report.load_known()
        vio = [o for o in run.violations() if report.known_match(prop, o, known) is None]
        return (kind, name, "violation" if vio else "silent",
                [f"{o.rule} {o.file}:{o.line} {o.function}: {o.construct[:100]}" for o in vio[:3]])
    except srcmodel.AnalysisError as e:
        return (kind, name, "analysis-error", [str(e)[:200]])
    except Exception as e:          # checker bug on this variant
        return (kind, name, "analysis-error", [f"{type(e).__name__}: {e}"[:200]])


def corpus(prop):
    """[(name, diff text, reverse?)] for the property."""
    out = []
    for d in sorted(glob.glob(os.path.join(ROOT, "seeded", f"{prop}_*"))
                    + glob.glob(os.path.join(ROOT, "seeded", f"{prop}r*_*"))):
        p = os.path.join(d, "patch.diff")
        if os.path.exists(p):
            with open(p) as f:
                out.append(("seed:" + os.path.basename(d), f.read(), False))
    idx = os.path.join(HERE, "regress", "INDEX.json")
    if os.path.exists(idx):
        with open(idx) as f:
            index = json.load(f)
        for ent in index:
            if prop in ent["properties"]:
                with open(os.path.join(HERE, "regress", ent["file"])) as f:
                    out.append(("revert:" + ent["file"][:-5], f.read(), True))
    return out


def run_for(run, mod, P, jobs=16, seed=0):
    prop = run.prop
    repo_root = P.repo_root
    rd = _read_repo(repo_root)
    tasks = []
    stale = []
    for name, diff, rev in corpus(prop):
        ov = patch.overlay_for(diff, rd, reverse=rev)
        if ov is None:
            stale.append(name)
            continue
        # a reverse patch that changes nothing (already reverted) is stale too
        if all(rd(p) == t for p, t in ov.items()):
            stale.append(name)
            continue
        tasks.append((prop, "mutant", name, ov, repo_root))
    sources = {m.relpath: m.source for m in P.repo_modules() if m.relpath not in P.overlay
               or True}
    for tname, fn in twins.TWINS.items():
        ov = {}
        for rel, src in sources.items():
            try:
                ov[rel] = fn(src, seed)
            except Exception:
                ov[rel] = src
        tasks.append((prop, "twin", tname, ov, repo_root))

    # corrected versions of seeded commits (same commit, defect removed; written by
    # independent sub-agents, seeded/<name>/fixed.diff): a correct commit is never reported
    n_correct_stale = 0
    for d in sorted(glob.glob(os.path.join(ROOT, "seeded", "C*"))):
        fp = os.path.join(d, "fixed.diff")
        if not os.path.exists(fp):
            continue
        with open(fp) as f:
            ov = patch.overlay_for(f.read(), rd)
        if ov is None:
            n_correct_stale += 1
            continue
        tasks.append((prop, "correct", os.path.basename(d), ov, repo_root))

    results = []
    if tasks:
        with ProcessPoolExecutor(max_workers=max(1, min(jobs, len(tasks)))) as ex:
            results = list(ex.map(_eval_variant, tasks))

    mut = [r for r in results if r[0] == "mutant"]
    tw = [r for r in results if r[0] == "twin"]
    fired = [r for r in mut if r[2] == "violation"]
    missed = [r for r in mut if r[2] == "silent"]
    mut_err = [r for r in mut if r[2] == "analysis-error"]
    silent = [r for r in tw if r[2] == "silent"]
    tw_fired = [r for r in tw if r[2] == "violation"]
    tw_err = [r for r in tw if r[2] == "analysis-error"]
    co = [r for r in results if r[0] == "correct"]
    co_fired = [r for r in co if r[2] == "violation"]
    co_err = [r for r in co if r[2] == "analysis-error"]
    for r in co_fired:
        print(f"SELFTEST-WEAK property={prop} corrected commit {r[1]} (property holds) is reported: "
              f"{r[3][0] if r[3] else ''}")
    for r in missed:
        print(f"SELFTEST-WEAK property={prop} mutant {r[1]} was not detected")
    for r in mut_err:
        print(f"SELFTEST-WEAK property={prop} mutant {r[1]} gives ANALYSIS-ERROR "
              f"instead of a finding: {r[3][0] if r[3] else ''}")
    for r in tw_fired:
        print(f"SELFTEST-WEAK property={prop} twin '{r[1]}' (behaviour preserving) "
              f"raises a false alarm: {r[3][0] if r[3] else ''}")
    for r in tw_err:
        print(f"SELFTEST-WEAK property={prop} twin '{r[1]}' is not understood "
              f"(ANALYSIS-ERROR): {r[3][0] if r[3] else ''}")
    print(f"[{prop}] selftest: mutants fired {len(fired)}/{len(mut)} "
          f"(analysis-error {len(mut_err)}, stale {len(stale)}); twins silent "
          f"{len(silent)}/{len(tw)} (false alarm {len(tw_fired)}, not understood {len(tw_err)}); "
          f"corrected commits unreported {len(co) - len(co_fired)}/{len(co)} "
          f"(not understood {len(co_err)}, stale {n_correct_stale})")
    run.extra["selftest"] = {
        "mutants": len(mut), "mutants_fired": len(fired),
        "mutants_missed": [r[1] for r in missed],
        "mutants_analysis_error": [r[1] for r in mut_err],
        "mutants_stale": stale,
        "twins": len(tw), "twins_silent": len(silent),
        "twins_false_alarm": [r[1] for r in tw_fired],
        "twins_not_understood": [r[1] for r in tw_err],
        "corrected_commits": len(co),
        "corrected_commits_reported": [r[1] for r in co_fired],
        "corrected_commits_not_understood": [r[1] for r in co_err],
        "details": [{"kind": r[0], "name": r[1], "outcome": r[2], "first": r[3][:1]}
                    for r in results],
    }
