def run_for(run, mod, P, jobs=16, seed=0):
    run.extra.setdefault("selftest", {"mutants": 0, "fired": 0, "twins": 0, "silent": 0})
