"""Apply unified diffs to source text held in memory (content-addressed: hunks
are located by their old lines, not by line numbers, so a patch written
against an older tree still applies when the surrounding code moved)."""

from __future__ import annotations

import re


class Hunk:
    def __init__(self, start):
        self.start = start
        self.old = []
        self.new = []


def parse(diff_text):
    """{path: [Hunk]}"""
    files = {}
    cur = None
    hunk = None
    for line in diff_text.splitlines():
        if line.startswith("diff --git"):
            cur = None
            hunk = None
            continue
        if line.startswith("+++ "):
            p = line[4:].strip()
            if p.startswith("b/"):
                p = p[2:]
            cur = files.setdefault(p, [])
            continue
        if line.startswith("--- ") or line.startswith("index ") or line.startswith("new file") \
                or line.startswith("deleted file") or line.startswith("similarity"):
            continue
        m = re.match(r"^@@ -(\d+)(?:,\d+)? \+(\d+)(?:,\d+)? @@", line)
        if m and cur is not None:
            hunk = Hunk(int(m.group(1)))
            cur.append(hunk)
            continue
        if hunk is None:
            continue
        if line.startswith("\\"):
            continue
        if line.startswith("-"):
            hunk.old.append(line[1:])
        elif line.startswith("+"):
            hunk.new.append(line[1:])
        else:
            t = line[1:] if line.startswith(" ") else line
            hunk.old.append(t)
            hunk.new.append(t)
    return files


def _find(lines, block, hint):
    if not block:
        return min(max(hint - 1, 0), len(lines))
    n = len(block)
    cands = [i for i in range(0, len(lines) - n + 1) if lines[i:i + n] == block]
    if not cands:
        # tolerate trailing-whitespace differences
        sb = [b.rstrip() for b in block]
        cands = [i for i in range(0, len(lines) - n + 1)
                 if [x.rstrip() for x in lines[i:i + n]] == sb]
    if not cands:
        return None
    return min(cands, key=lambda i: abs(i - (hint - 1)))


def apply_to_text(text, hunks, reverse=False):
    lines = text.split("\n")
    offset = 0
    for h in hunks:
        old, new = (h.new, h.old) if reverse else (h.old, h.new)
        i = _find(lines, old, h.start + offset)
        if i is None:
            # shrink context progressively (like patch fuzz)
            for fuzz in (1, 2, 3):
                o2, n2 = old[fuzz:-fuzz] if len(old) > 2 * fuzz else old, \
                    new[fuzz:-fuzz] if len(new) > 2 * fuzz else new
                if len(old) > 2 * fuzz and old[:fuzz] == new[:fuzz] and old[-fuzz:] == new[-fuzz:]:
                    j = _find(lines, o2, h.start + offset + fuzz)
                    if j is not None:
                        i, old, new = j, o2, n2
                        break
            if i is None:
                return None
        lines[i:i + len(old)] = new
        offset += len(new) - len(old)
    return "\n".join(lines)


def overlay_for(diff_text, read_file, reverse=False):
    """{relpath: new text} or None when a hunk cannot be located."""
    out = {}
    for path, hunks in parse(diff_text).items():
        try:
            text = read_file(path)
        except OSError:
            return None
        new = apply_to_text(text, hunks, reverse=reverse)
        if new is None:
            return None
        out[path] = new
    return out
