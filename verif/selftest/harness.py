"""Self-validation of the checker (thorough tier): in-memory mutants and
behaviour-preserving twins.  See DESIGN.md section 7."""


def self_validate(run, mod, P, jobs=16, seed=0):
    from . import mutants
    mutants.run_for(run, mod, P, jobs=jobs, seed=seed)
